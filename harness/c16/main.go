// Harness for C16: drives the REAL in-memory stores of tm/tmstore/tmmemstore with the
// operation sequences read from stdin and prints every return value as a Coq term of the
// model's output type (coq/Model/Stores.v), so that the check can paste the observations
// into a Coq file and compare them with the model inside coqc.
//
// Input (one token list per line; bytes are hex, "." = empty, "-" = nil key / empty list):
//
//	T <store> <scheme>          sequential trace on a fresh store; then op lines; then E
//	C <store> <scheme>          concurrent run: op lines are "<goroutine> <op...>"; then E
//	H <scheme> K|P <list>       print HashScheme.PubKeys / VotePowers of the list
//
// Output: "T"/"C", one line per op, "E".
//
//	sequential: "<deep> <coq-term>"      deep = 0 when a loaded Go value differs
//	                                     (reflect.DeepEqual) from the value that was saved
//	concurrent: "<g> <i> <inv> <ret> <deep> <coq-term>"   inv/ret from one atomic counter
package main

import (
	"bufio"
	"context"
	"encoding/hex"
	"errors"
	"fmt"
	"os"
	"reflect"
	"sort"
	"strconv"
	"strings"
	"sync"
	"sync/atomic"

	"github.com/gordian-engine/gordian/gcrypto"
	"github.com/gordian-engine/gordian/tm/tmconsensus"
	"github.com/gordian-engine/gordian/tm/tmconsensus/tmconsensustest"
	"github.com/gordian-engine/gordian/tm/tmstore"
	"github.com/gordian-engine/gordian/tm/tmstore/tmmemstore"
)

var ctx = context.Background()

// ---------------------------------------------------------------- parsing helpers

func unhex(s string) []byte {
	if s == "." {
		return []byte{}
	}
	b, err := hex.DecodeString(s)
	if err != nil {
		panic("bad hex " + s)
	}
	return b
}

func u64(s string) uint64 {
	n, err := strconv.ParseUint(s, 10, 64)
	if err != nil {
		panic("bad number " + s)
	}
	return n
}

func u32(s string) uint32 { return uint32(u64(s)) }

func mkKey(s string) gcrypto.PubKey {
	if s == "-" {
		return nil
	}
	return gcrypto.Ed25519PubKey(unhex(s))
}

// ---------------------------------------------------------------- Coq printing

func cBytes(b []byte) string {
	var sb strings.Builder
	sb.WriteByte('[')
	for i, x := range b {
		if i > 0 {
			sb.WriteByte(';')
		}
		sb.WriteString(strconv.Itoa(int(x)))
	}
	sb.WriteByte(']')
	return sb.String()
}

func cStr(s string) string { return cBytes([]byte(s)) }

func cKey(k gcrypto.PubKey) string {
	if k == nil {
		return "None"
	}
	return "(Some " + cBytes(k.PubKeyBytes()) + ")"
}

func cOptBytes(ok bool, s string) string {
	if !ok {
		return "None"
	}
	return "(Some " + cStr(s) + ")"
}

func unhexStr(s string) []byte {
	b, err := hex.DecodeString(s)
	if err != nil {
		return []byte("?")
	}
	return b
}

// cErr maps an error of the tmstore API to the model's err type.
func cErr(err error) string {
	var da tmstore.DoubleActionError
	if errors.As(err, &da) {
		k := map[string]string{"proposed block": "KProposal", "prevote": "KPrevote", "precommit": "KPrecommit"}[da.Type]
		if k == "" {
			k = "KUNKNOWN_" + da.Type
		}
		return "(EDoubleAction " + k + ")"
	}
	var pk tmstore.PubKeyChangedError
	if errors.As(err, &pk) {
		k := map[string]string{"prevote": "KPrevote", "precommit": "KPrecommit", "proposed block": "KProposal"}[pk.ActionType]
		return "(EPubKeyChanged " + k + " " + cStr(pk.Want) + " " + cStr(pk.Got) + ")"
	}
	var ru tmconsensus.RoundUnknownError
	if errors.As(err, &ru) {
		return fmt.Sprintf("(ERoundUnknown %d %d)", ru.WantHeight, ru.WantRound)
	}
	var hu tmconsensus.HeightUnknownError
	if errors.As(err, &hu) {
		return fmt.Sprintf("(EHeightUnknown %d)", hu.Want)
	}
	var fo tmstore.FinalizationOverwriteError
	if errors.As(err, &fo) {
		return fmt.Sprintf("(EFinOverwrite %d)", fo.Height)
	}
	var ow tmstore.OverwriteError
	if errors.As(err, &ow) {
		f := map[string]string{"pubkey": "0", "hash": "1"}[ow.Field]
		if f == "" {
			f = "99"
		}
		return "(EOverwrite " + f + " " + cBytes(unhexStr(ow.Value)) + ")"
	}
	if errors.Is(err, tmstore.ErrStoreUninitialized) {
		return "EUninitialized"
	}
	var ke tmstore.PubKeysAlreadyExistError
	if errors.As(err, &ke) {
		return "(EKeysExist " + cStr(ke.ExistingHash) + ")"
	}
	var pe tmstore.VotePowersAlreadyExistError
	if errors.As(err, &pe) {
		return "(EPowsExist " + cStr(pe.ExistingHash) + ")"
	}
	var nk tmstore.NoPubKeyHashError
	var np tmstore.NoVotePowerHashError
	hasK, hasP := errors.As(err, &nk), errors.As(err, &np)
	if hasK || hasP {
		return "(ENoHash " + cOptBytes(hasK, nk.Want) + " " + cOptBytes(hasP, np.Want) + ")"
	}
	var cm tmstore.PubKeyPowerCountMismatchError
	if errors.As(err, &cm) {
		return fmt.Sprintf("(ECountMismatch %d %d)", cm.NPubKeys, cm.NVotePower)
	}
	if errors.Is(err, errScheme) {
		return "EHashScheme"
	}
	return "(EUNKNOWN)"
}

// ---------------------------------------------------------------- value builders (tag -> full Go value)

func tagBytes(tag uint64) []byte { return []byte(strconv.FormatUint(tag, 10)) }

func tagOf(b []byte) uint64 {
	n, err := strconv.ParseUint(string(b), 10, 64)
	if err != nil {
		return 1<<63 + uint64(len(b))
	}
	return n
}

func mkSigs(tag uint64) []gcrypto.SparseSignature {
	n := int(tag%3) + 1
	out := make([]gcrypto.SparseSignature, n)
	for i := range out {
		out[i] = gcrypto.SparseSignature{KeyID: []byte{byte(i), byte(tag)}, Sig: append(tagBytes(tag), byte(i))}
	}
	return out
}

func mkValSet(tag uint64) tmconsensus.ValidatorSet {
	if tag == 0 {
		return tmconsensus.ValidatorSet{}
	}
	n := int(tag%4) + 1
	vs := tmconsensus.ValidatorSet{PubKeyHash: append([]byte("kh"), tagBytes(tag)...), VotePowerHash: append([]byte("ph"), tagBytes(tag)...)}
	for i := 0; i < n; i++ {
		k := gcrypto.Ed25519PubKey(append(tagBytes(tag), byte(i)))
		vs.Validators = append(vs.Validators, tmconsensus.Validator{PubKey: k, Power: tag + uint64(i)})
		vs.PubKeys = append(vs.PubKeys, k)
	}
	return vs
}

func valSetTag(vs tmconsensus.ValidatorSet) uint64 {
	if vs.PubKeyHash == nil && vs.Validators == nil {
		return 0
	}
	if len(vs.PubKeyHash) < 2 {
		return 1 << 62
	}
	return tagOf(vs.PubKeyHash[2:])
}

func mkHeader(h uint64, hash []byte, tag uint64) tmconsensus.Header {
	return tmconsensus.Header{
		Hash:          hash,
		PrevBlockHash: append([]byte("prev"), tagBytes(tag)...),
		Height:        h,
		PrevCommitProof: tmconsensus.CommitProof{
			Round:      uint32(tag % 5),
			PubKeyHash: "pkh" + string(tagBytes(tag)),
			Proofs:     map[string][]gcrypto.SparseSignature{"": mkSigs(tag), string(tagBytes(tag)): mkSigs(tag + 1)},
		},
		ValidatorSet:     mkValSet(tag%7 + 1),
		NextValidatorSet: mkValSet(tag%5 + 1),
		DataID:           tagBytes(tag),
		PrevAppStateHash: []byte{byte(tag), byte(tag >> 8)},
		Annotations:      tmconsensus.Annotations{User: tagBytes(tag + 7)},
	}
}

func mkPH(h uint64, r uint32, hash []byte, key gcrypto.PubKey, tag uint64) tmconsensus.ProposedHeader {
	return tmconsensus.ProposedHeader{
		Header:         mkHeader(h, hash, tag),
		Round:          r,
		ProposerPubKey: key,
		Annotations:    tmconsensus.Annotations{Driver: tagBytes(tag + 3)},
		Signature:      append([]byte("sig"), tagBytes(tag)...),
	}
}

func mkCH(h uint64, tag uint64) tmconsensus.CommittedHeader {
	return tmconsensus.CommittedHeader{
		Header: mkHeader(h, append([]byte("hash"), tagBytes(tag)...), tag),
		Proof: tmconsensus.CommitProof{
			Round:      uint32(tag % 3),
			PubKeyHash: "cpkh" + string(tagBytes(tag)),
			Proofs:     map[string][]gcrypto.SparseSignature{string(tagBytes(tag)): mkSigs(tag + 2)},
		},
	}
}

// cPH prints the projection of a proposed header; deep reports whether the full value is
// the one generated from the same projected fields.
func cPH(p tmconsensus.ProposedHeader) (string, bool) {
	tag := tagOf(p.Header.DataID)
	zero := reflect.DeepEqual(p, tmconsensus.ProposedHeader{})
	if zero {
		return "(mkph 0 0 [] None 0)", true
	}
	var want tmconsensus.ProposedHeader
	if tag >= replayedTagBase {
		// A replayed header is returned wrapped in an otherwise empty ProposedHeader.
		want = tmconsensus.ProposedHeader{Header: mkHeader(p.Header.Height, p.Header.Hash, tag)}
	} else {
		want = mkPH(p.Header.Height, p.Round, p.Header.Hash, p.ProposerPubKey, tag)
	}
	return fmt.Sprintf("(mkph %d %d %s %s %d)", p.Header.Height, p.Round, cBytes(p.Header.Hash), cKey(p.ProposerPubKey), tag),
		reflect.DeepEqual(p, want)
}

const replayedTagBase = 1000000

// ssc syntax: "<pkh> N" (nil map) | "<pkh> M -" (empty map) | "<pkh> M hash:tag,hash:tag"
func mkSSC(pkh, kind, entries string) tmconsensus.SparseSignatureCollection {
	c := tmconsensus.SparseSignatureCollection{PubKeyHash: unhex(pkh)}
	if kind == "N" {
		return c
	}
	c.BlockSignatures = map[string][]gcrypto.SparseSignature{}
	if entries != "-" {
		for _, e := range strings.Split(entries, ",") {
			p := strings.SplitN(e, ":", 2)
			c.BlockSignatures[string(unhex(p[0]))] = mkSigs(u64(p[1]))
		}
	}
	return c
}

func cSSC(c tmconsensus.SparseSignatureCollection) (string, bool) {
	deep := true
	if c.BlockSignatures == nil {
		return "(" + cBytes(c.PubKeyHash) + ", None)", true
	}
	keys := make([]string, 0, len(c.BlockSignatures))
	for k := range c.BlockSignatures {
		keys = append(keys, k)
	}
	sort.Strings(keys)
	parts := make([]string, 0, len(keys))
	for _, k := range keys {
		sigs := c.BlockSignatures[k]
		var tag uint64 = 1 << 61
		if len(sigs) > 0 && len(sigs[0].Sig) > 0 {
			tag = tagOf(sigs[0].Sig[:len(sigs[0].Sig)-1])
		}
		if !reflect.DeepEqual(sigs, mkSigs(tag)) {
			deep = false
		}
		parts = append(parts, fmt.Sprintf("(%s, %d)", cStr(k), tag))
	}
	return "(" + cBytes(c.PubKeyHash) + ", Some [" + strings.Join(parts, "; ") + "])", deep
}

// ---------------------------------------------------------------- hash schemes

var errScheme = errors.New("harness hash scheme refuses this input")

// weakScheme collides on purpose and can fail: it is the "arbitrary hash function" of the model.
type weakScheme struct{}

func (weakScheme) Block(tmconsensus.Header) ([]byte, error) { return []byte{0}, nil }
func (weakScheme) PubKeys(keys []gcrypto.PubKey) ([]byte, error) {
	if len(keys) == 5 {
		return nil, errScheme
	}
	var x byte
	for _, k := range keys {
		for _, b := range k.PubKeyBytes() {
			x += b
		}
	}
	return []byte{byte(len(keys) % 2), x % 3}, nil
}
func (weakScheme) VotePowers(pows []uint64) ([]byte, error) {
	var x uint64
	for _, p := range pows {
		if p == 13 {
			return nil, errScheme
		}
		x += p
	}
	return []byte{byte(x % 4)}, nil
}

func scheme(name string) tmconsensus.HashScheme {
	if name == "weak" {
		return weakScheme{}
	}
	return tmconsensustest.SimpleHashScheme{}
}

func parseKeys(s string) []gcrypto.PubKey {
	if s == "-" {
		return nil
	}
	var out []gcrypto.PubKey
	for _, p := range strings.Split(s, ",") {
		out = append(out, gcrypto.Ed25519PubKey(unhex(p)))
	}
	return out
}

func parsePows(s string) []uint64 {
	if s == "-" {
		return nil
	}
	var out []uint64
	for _, p := range strings.Split(s, ",") {
		out = append(out, u64(p))
	}
	return out
}

// ---------------------------------------------------------------- store drivers

type driver interface {
	// do runs one op against the real store and returns (coq term of the result, deep-equality flag).
	do(f []string) (string, bool)
}

type actionD struct{ s *tmmemstore.ActionStore }

func (d actionD) do(f []string) (string, bool) {
	var err error
	switch f[0] {
	case "PH":
		err = d.s.SaveProposedHeaderAction(ctx, mkPH(u64(f[1]), u32(f[2]), unhex(f[3]), mkKey(f[4]), u64(f[5])))
	case "PV":
		err = d.s.SavePrevoteAction(ctx, mkKey(f[1]), tmconsensus.VoteTarget{Height: u64(f[2]), Round: u32(f[3]), BlockHash: string(unhex(f[4]))}, unhex(f[5]))
	case "PC":
		err = d.s.SavePrecommitAction(ctx, mkKey(f[1]), tmconsensus.VoteTarget{Height: u64(f[2]), Round: u32(f[3]), BlockHash: string(unhex(f[4]))}, unhex(f[5]))
	case "LD":
		ra, err := d.s.LoadActions(ctx, u64(f[1]), u32(f[2]))
		if err != nil {
			return "(AErr " + cErr(err) + ")", reflect.DeepEqual(ra, tmstore.RoundActions{})
		}
		ph, deep := cPH(ra.ProposedHeader)
		return fmt.Sprintf("(ALoaded (mkra %d %d %s %s %s %s %s %s))", ra.Height, ra.Round, ph, cKey(ra.PubKey),
			cStr(ra.PrevoteTarget), cStr(ra.PrevoteSignature), cStr(ra.PrecommitTarget), cStr(ra.PrecommitSignature)), deep
	default:
		panic("bad action op " + f[0])
	}
	if err != nil {
		return "(AErr " + cErr(err) + ")", true
	}
	return "AOk", true
}

type roundD struct{ s *tmmemstore.RoundStore }

func (d roundD) do(f []string) (string, bool) {
	var err error
	switch f[0] {
	case "PH":
		err = d.s.SaveRoundProposedHeader(ctx, mkPH(u64(f[1]), u32(f[2]), unhex(f[3]), mkKey(f[4]), u64(f[5])))
	case "RH":
		err = d.s.SaveRoundReplayedHeader(ctx, mkHeader(u64(f[1]), unhex(f[2]), u64(f[3])))
	case "PV":
		err = d.s.OverwriteRoundPrevoteProofs(ctx, u64(f[1]), u32(f[2]), mkSSC(f[3], f[4], f[5]))
	case "PC":
		err = d.s.OverwriteRoundPrecommitProofs(ctx, u64(f[1]), u32(f[2]), mkSSC(f[3], f[4], f[5]))
	case "LD":
		phs, pv, pc, err := d.s.LoadRoundState(ctx, u64(f[1]), u32(f[2]))
		spv, d1 := cSSC(pv)
		spc, d2 := cSSC(pc)
		deep := d1 && d2
		if err != nil {
			var ru tmconsensus.RoundUnknownError
			if errors.As(err, &ru) {
				return fmt.Sprintf("(RUnknown %s %s %d %d)", spv, spc, ru.WantHeight, ru.WantRound), deep && phs == nil
			}
			return "(RErr " + cErr(err) + ")", deep
		}
		parts := make([]string, len(phs))
		for i, p := range phs {
			s, dd := cPH(p)
			parts[i] = s
			deep = deep && dd
		}
		return "(RLoaded [" + strings.Join(parts, "; ") + "] " + spv + " " + spc + ")", deep
	default:
		panic("bad round op " + f[0])
	}
	if err != nil {
		return "(RErr " + cErr(err) + ")", true
	}
	return "ROk", true
}

type finD struct{ s *tmmemstore.FinalizationStore }

func (d finD) do(f []string) (string, bool) {
	switch f[0] {
	case "SV":
		err := d.s.SaveFinalization(ctx, u64(f[1]), u32(f[2]), string(unhex(f[3])), mkValSet(u64(f[4])), string(unhex(f[5])))
		if err != nil {
			return "(FErr " + cErr(err) + ")", true
		}
		return "FOk", true
	case "LD":
		r, bh, vs, ah, err := d.s.LoadFinalizationByHeight(ctx, u64(f[1]))
		if err != nil {
			return "(FErr " + cErr(err) + ")", r == 0 && bh == "" && ah == "" && reflect.DeepEqual(vs, tmconsensus.ValidatorSet{})
		}
		tag := valSetTag(vs)
		return fmt.Sprintf("(FLoaded %d %s %d %s)", r, cStr(bh), tag, cStr(ah)), reflect.DeepEqual(vs, mkValSet(tag))
	}
	panic("bad fin op " + f[0])
}

type chsD struct {
	s *tmmemstore.CommittedHeaderStore
}

func (d chsD) do(f []string) (string, bool) {
	switch f[0] {
	case "SV":
		if err := d.s.SaveCommittedHeader(ctx, mkCH(u64(f[1]), u64(f[2]))); err != nil {
			return "(CErr " + cErr(err) + ")", true
		}
		return "COk", true
	case "LD":
		ch, err := d.s.LoadCommittedHeader(ctx, u64(f[1]))
		if err != nil {
			return "(CErr " + cErr(err) + ")", reflect.DeepEqual(ch, tmconsensus.CommittedHeader{})
		}
		tag := tagOf(ch.Header.DataID)
		return fmt.Sprintf("(CLoaded %d)", tag), reflect.DeepEqual(ch, mkCH(u64(f[1]), tag))
	}
	panic("bad chs op " + f[0])
}

type mirrorD struct{ s *tmmemstore.MirrorStore }

func (d mirrorD) do(f []string) (string, bool) {
	switch f[0] {
	case "ST":
		if err := d.s.SetNetworkHeightRound(ctx, u64(f[1]), u32(f[2]), u64(f[3]), u32(f[4])); err != nil {
			return "(MErr " + cErr(err) + ")", true
		}
		return "MOk", true
	case "GT":
		vh, vr, ch, cr, err := d.s.NetworkHeightRound(ctx)
		if err != nil {
			return "(MErr " + cErr(err) + ")", vh == 0 && vr == 0 && ch == 0 && cr == 0
		}
		return fmt.Sprintf("(MVal %d %d %d %d)", vh, vr, ch, cr), true
	}
	panic("bad mirror op " + f[0])
}

type smD struct{ s *tmmemstore.StateMachineStore }

func (d smD) do(f []string) (string, bool) {
	switch f[0] {
	case "ST":
		if err := d.s.SetStateMachineHeightRound(ctx, u64(f[1]), u32(f[2])); err != nil {
			return "(SErr " + cErr(err) + ")", true
		}
		return "SOk", true
	case "GT":
		h, r, err := d.s.StateMachineHeightRound(ctx)
		if err != nil {
			return "(SErr " + cErr(err) + ")", h == 0 && r == 0
		}
		return fmt.Sprintf("(SVal %d %d)", h, r), true
	}
	panic("bad sm op " + f[0])
}

type valD struct {
	s     *tmmemstore.ValidatorStore
	mu    sync.Mutex
	saved [][]gcrypto.PubKey // the slices passed to SavePubKeys, in call order (the caller's own memory)
}

func cKeyList(ks []gcrypto.PubKey) string {
	parts := make([]string, len(ks))
	for i, k := range ks {
		if k == nil {
			parts[i] = "[999]"
		} else {
			parts[i] = cBytes(k.PubKeyBytes())
		}
	}
	return "[" + strings.Join(parts, "; ") + "]"
}

func (d *valD) do(f []string) (string, bool) {
	switch f[0] {
	case "SK":
		keys := parseKeys(f[1])
		d.mu.Lock()
		d.saved = append(d.saved, keys)
		d.mu.Unlock()
		h, err := d.s.SavePubKeys(ctx, keys)
		if err != nil {
			var ke tmstore.PubKeysAlreadyExistError
			if errors.As(err, &ke) {
				return "(VSaveErr " + cStr(h) + " " + cErr(err) + ")", true
			}
			return "(VFail " + cErr(err) + ")", h == ""
		}
		return "(VSaved " + cStr(h) + ")", true
	case "SP":
		h, err := d.s.SaveVotePowers(ctx, parsePows(f[1]))
		if err != nil {
			var pe tmstore.VotePowersAlreadyExistError
			if errors.As(err, &pe) {
				return "(VSaveErr " + cStr(h) + " " + cErr(err) + ")", true
			}
			return "(VFail " + cErr(err) + ")", h == ""
		}
		return "(VSaved " + cStr(h) + ")", true
	case "LK":
		ks, err := d.s.LoadPubKeys(ctx, string(unhex(f[1])))
		if err != nil {
			return "(VFail " + cErr(err) + ")", ks == nil
		}
		return "(VKeys " + cKeyList(ks) + ")", true
	case "LP":
		ps, err := d.s.LoadVotePowers(ctx, string(unhex(f[1])))
		if err != nil {
			return "(VFail " + cErr(err) + ")", ps == nil
		}
		parts := make([]string, len(ps))
		for i, p := range ps {
			parts[i] = strconv.FormatUint(p, 10)
		}
		return "(VPows [" + strings.Join(parts, "; ") + "])", true
	case "LV":
		vs, err := d.s.LoadValidators(ctx, string(unhex(f[1])), string(unhex(f[2])))
		if err != nil {
			return "(VFail " + cErr(err) + ")", vs == nil
		}
		parts := make([]string, len(vs))
		for i, v := range vs {
			parts[i] = fmt.Sprintf("(%s, %d)", cBytes(v.PubKey.PubKeyBytes()), v.Power)
		}
		return "(VVals [" + strings.Join(parts, "; ") + "])", true
	case "MU":
		// The caller reuses the slice it handed to the i-th SavePubKeys call.
		d.mu.Lock()
		i := int(u64(f[1]))
		if i < len(d.saved) {
			for j := range d.saved[i] {
				d.saved[i][j] = gcrypto.Ed25519PubKey([]byte{0xEE, byte(j)})
			}
		}
		d.mu.Unlock()
		return "VDone", true
	}
	panic("bad val op " + f[0])
}

func newDriver(store, sch string) driver {
	switch store {
	case "action":
		return actionD{tmmemstore.NewActionStore()}
	case "round":
		return roundD{tmmemstore.NewRoundStore()}
	case "fin":
		return finD{tmmemstore.NewFinalizationStore()}
	case "chs":
		return chsD{tmmemstore.NewCommittedHeaderStore()}
	case "mirror":
		return mirrorD{tmmemstore.NewMirrorStore()}
	case "sm":
		return smD{tmmemstore.NewStateMachineStore()}
	case "val":
		return &valD{s: tmmemstore.NewValidatorStore(scheme(sch))}
	}
	panic("unknown store " + store)
}

var panicTerm = map[string]string{"action": "APanic", "round": "RPanic", "val": "VPanic"}

func safeDo(store string, d driver, f []string) (term string, deep bool) {
	defer func() {
		if r := recover(); r != nil {
			t := panicTerm[store]
			if t == "" {
				t = "PANIC"
			}
			term, deep = t, true
		}
	}()
	return d.do(f)
}

func main() {
	sc := bufio.NewScanner(os.Stdin)
	sc.Buffer(make([]byte, 1<<20), 1<<26)
	w := bufio.NewWriter(os.Stdout)
	defer w.Flush()
	b2i := map[bool]int{false: 0, true: 1}
	for sc.Scan() {
		f := strings.Fields(sc.Text())
		if len(f) == 0 {
			continue
		}
		switch f[0] {
		case "H":
			func() {
				defer func() {
					if r := recover(); r != nil {
						fmt.Fprintln(w, "H panic")
					}
				}()
				var h []byte
				var err error
				if f[2] == "K" {
					h, err = scheme(f[1]).PubKeys(parseKeys(f[3]))
				} else {
					h, err = scheme(f[1]).VotePowers(parsePows(f[3]))
				}
				if err != nil {
					fmt.Fprintln(w, "H err")
				} else {
					fmt.Fprintln(w, "H ok "+cBytes(h))
				}
			}()
		case "T":
			store := f[1]
			d := newDriver(store, f[2])
			fmt.Fprintln(w, "T")
			for sc.Scan() {
				g := strings.Fields(sc.Text())
				if len(g) == 0 {
					continue
				}
				if g[0] == "E" {
					break
				}
				term, deep := safeDo(store, d, g)
				fmt.Fprintf(w, "%d %s\n", b2i[deep], term)
			}
			fmt.Fprintln(w, "E")
		case "C":
			store := f[1]
			d := newDriver(store, f[2])
			var perG [][][]string
			for sc.Scan() {
				g := strings.Fields(sc.Text())
				if len(g) == 0 {
					continue
				}
				if g[0] == "E" {
					break
				}
				gi := int(u64(g[0]))
				for len(perG) <= gi {
					perG = append(perG, nil)
				}
				perG[gi] = append(perG[gi], g[1:])
			}
			type rec struct {
				g, i     int
				inv, ret int64
				term     string
				deep     bool
			}
			var clock atomic.Int64
			recs := make([][]rec, len(perG))
			var wg sync.WaitGroup
			start := make(chan struct{})
			for gi := range perG {
				wg.Add(1)
				go func(gi int) {
					defer wg.Done()
					<-start
					for i, op := range perG[gi] {
						inv := clock.Add(1)
						term, deep := safeDo(store, d, op)
						ret := clock.Add(1)
						recs[gi] = append(recs[gi], rec{gi, i, inv, ret, term, deep})
					}
				}(gi)
			}
			close(start)
			wg.Wait()
			fmt.Fprintln(w, "C")
			for _, rs := range recs {
				for _, r := range rs {
					fmt.Fprintf(w, "%d %d %d %d %d %s\n", r.g, r.i, r.inv, r.ret, b2i[r.deep], r.term)
				}
			}
			fmt.Fprintln(w, "E")
		}
	}
}
