// Harness for C14: drives the REAL tmjson.MarshalCodec (and, through the verif hook aliases,
// the real intermediate structs / conversion functions) on generated values and on a hostile
// stream of JSON documents, and prints every input and observation as a Coq term so that the
// check can evaluate the Gallina model on exactly the same cases inside coqc.
//
// usage: h_c14 -seed S -nrt N -ndoc M        generated cases
//
//	h_c14 -doc FILE -kind H|PH|CH|PV|PC|CM   one document from a replay
//
// Output: one case per line, tab separated.
//
//	RT  <kind> <idx> <value term> <hook struct term> <observed term> <json-identity 0/1> <doc>
//	DEC <kind> <idx> <struct term | JSONERR> <observed term> <doc-class> <doc>
package main

import (
	"bufio"
	"bytes"
	"encoding/base64"
	"encoding/json"
	"flag"
	"fmt"
	"os"
	"reflect"
	"sort"
	"strconv"
	"strings"

	"github.com/gordian-engine/gordian/gcrypto"
	"github.com/gordian-engine/gordian/tm/tmcodec"
	"github.com/gordian-engine/gordian/tm/tmcodec/tmjson"
	"github.com/gordian-engine/gordian/tm/tmconsensus"
)

// ---------------------------------------------------------------- key types

// fixKey is a strict key type: its constructor rejects every length but 4.
// Registered under a name of exactly prefixSize bytes (no NUL padding).
type fixKey []byte

func newFixKey(b []byte) (gcrypto.PubKey, error) {
	if len(b) != 4 {
		return nil, fmt.Errorf("fixKey: want 4 bytes, got %d", len(b))
	}
	return fixKey(b), nil
}
func (k fixKey) PubKeyBytes() []byte         { return []byte(k) }
func (k fixKey) Verify(msg, sig []byte) bool { return false }
func (k fixKey) TypeName() string            { return "fixkey08" }
func (k fixKey) Equal(o gcrypto.PubKey) bool {
	x, ok := o.(fixKey)
	return ok && bytes.Equal(x, k)
}

// unregKey is never registered: Registry.Marshal panics on it.
type unregKey []byte

func (k unregKey) PubKeyBytes() []byte         { return []byte(k) }
func (k unregKey) Verify(msg, sig []byte) bool { return false }
func (k unregKey) TypeName() string            { return "unreg" }
func (k unregKey) Equal(o gcrypto.PubKey) bool { return false }

func newCodec() tmjson.MarshalCodec {
	reg := new(gcrypto.Registry)
	gcrypto.RegisterEd25519(reg)
	reg.Register("fixkey08", fixKey{}, newFixKey)
	return tmjson.MarshalCodec{CryptoRegistry: reg}
}

// ---------------------------------------------------------------- PRNG

type rng struct{ s uint64 }

func (r *rng) next() uint64 {
	r.s += 0x9E3779B97F4A7C15
	z := r.s
	z = (z ^ (z >> 30)) * 0xBF58476D1CE4E5B9
	z = (z ^ (z >> 27)) * 0x94D049BB133111EB
	return z ^ (z >> 31)
}
func (r *rng) below(n int) int {
	if n <= 0 {
		return 0
	}
	return int(r.next() % uint64(n))
}
func (r *rng) chance(num, den int) bool { return r.below(den) < num }

// ---------------------------------------------------------------- Coq term emitters

func tBytes(b []byte) string {
	var sb strings.Builder
	sb.WriteByte('[')
	for i, x := range b {
		if i > 0 {
			sb.WriteByte(';')
		}
		sb.WriteString(strconv.Itoa(int(x)))
	}
	sb.WriteByte(']')
	return sb.String()
}
func tGB(b []byte) string {
	if b == nil {
		return "None"
	}
	return "(Some " + tBytes(b) + ")"
}
func tSigs(s []gcrypto.SparseSignature) string {
	if s == nil {
		return "None"
	}
	parts := make([]string, len(s))
	for i, x := range s {
		parts[i] = fmt.Sprintf("mk_ssig %s %s", tGB(x.KeyID), tGB(x.Sig))
	}
	return "(Some [" + strings.Join(parts, ";") + "])"
}
func tPMap(m map[string][]gcrypto.SparseSignature) string {
	if m == nil {
		return "None"
	}
	keys := make([]string, 0, len(m))
	for k := range m {
		keys = append(keys, k)
	}
	sort.Strings(keys) // bytewise, as bytes.Compare
	parts := make([]string, len(keys))
	for i, k := range keys {
		parts[i] = fmt.Sprintf("(%s,%s)", tBytes([]byte(k)), tSigs(m[k]))
	}
	return "(Some [" + strings.Join(parts, ";") + "])"
}
func tPK(k gcrypto.PubKey) string {
	switch v := k.(type) {
	case nil:
		return "None"
	case gcrypto.Ed25519PubKey:
		return fmt.Sprintf("(Some (mk_pk 1 %s))", tBytes([]byte(v)))
	case fixKey:
		return fmt.Sprintf("(Some (mk_pk 2 %s))", tBytes([]byte(v)))
	case unregKey:
		return fmt.Sprintf("(Some (mk_pk 3 %s))", tBytes([]byte(v)))
	}
	return fmt.Sprintf("(Some (mk_pk 99 %s))", tBytes(k.PubKeyBytes()))
}
func tValset(vs tmconsensus.ValidatorSet) string {
	vals := "None"
	if vs.Validators != nil {
		parts := make([]string, len(vs.Validators))
		for i, v := range vs.Validators {
			parts[i] = fmt.Sprintf("mk_validator %s %d", tPK(v.PubKey), v.Power)
		}
		vals = "(Some [" + strings.Join(parts, ";") + "])"
	}
	pks := "None"
	if vs.PubKeys != nil {
		parts := make([]string, len(vs.PubKeys))
		for i, k := range vs.PubKeys {
			parts[i] = tPK(k)
		}
		pks = "(Some [" + strings.Join(parts, ";") + "])"
	}
	return fmt.Sprintf("(mk_valset %s %s %s %s)", vals, pks, tGB(vs.PubKeyHash), tGB(vs.VotePowerHash))
}
func tCP(p tmconsensus.CommitProof) string {
	return fmt.Sprintf("(mk_commit_proof %d %s %s)", p.Round, tBytes([]byte(p.PubKeyHash)), tPMap(p.Proofs))
}
func tHeader(h tmconsensus.Header) string {
	return fmt.Sprintf("(mk_header %s %s %d %s %s %s %s %s %s %s)", tGB(h.Hash), tGB(h.PrevBlockHash), h.Height,
		tCP(h.PrevCommitProof), tValset(h.ValidatorSet), tValset(h.NextValidatorSet), tGB(h.DataID),
		tGB(h.PrevAppStateHash), tGB(h.Annotations.User), tGB(h.Annotations.Driver))
}
func tProposed(p tmconsensus.ProposedHeader) string {
	return fmt.Sprintf("(mk_proposed %s %d %s %s %s %s)", tHeader(p.Header), p.Round, tPK(p.ProposerPubKey),
		tGB(p.Annotations.User), tGB(p.Annotations.Driver), tGB(p.Signature))
}
func tCommitted(c tmconsensus.CommittedHeader) string {
	return fmt.Sprintf("(mk_committed %s %s)", tHeader(c.Header), tCP(c.Proof))
}
func tSparse(height uint64, round uint32, pkh string, m map[string][]gcrypto.SparseSignature) string {
	return fmt.Sprintf("(mk_sparse %d %d %s %s)", height, round, tBytes([]byte(pkh)), tPMap(m))
}
func tCmsg(m tmcodec.ConsensusMessage) string {
	a, b, c := "None", "None", "None"
	if m.ProposedHeader != nil {
		a = "(Some " + tProposed(*m.ProposedHeader) + ")"
	}
	if m.PrevoteProof != nil {
		p := m.PrevoteProof
		b = "(Some " + tSparse(p.Height, p.Round, p.PubKeyHash, p.Proofs) + ")"
	}
	if m.PrecommitProof != nil {
		p := m.PrecommitProof
		c = "(Some " + tSparse(p.Height, p.Round, p.PubKeyHash, p.Proofs) + ")"
	}
	return fmt.Sprintf("(mk_cmsg %s %s %s)", a, b, c)
}

// intermediate structs; sorted=true sorts entries by BlockHash (map-order canonical form)
func tEntries(es []tmjson.VerifJSONProofEntry, sorted bool) string {
	if es == nil {
		return "None"
	}
	if sorted {
		es = append([]tmjson.VerifJSONProofEntry(nil), es...)
		sort.SliceStable(es, func(i, j int) bool { return bytes.Compare(es[i].BlockHash, es[j].BlockHash) < 0 })
	}
	parts := make([]string, len(es))
	for i, e := range es {
		parts[i] = fmt.Sprintf("mk_jentry %s %s", tGB(e.BlockHash), tSigs(e.Signatures))
	}
	return "(Some [" + strings.Join(parts, ";") + "])"
}
func tJCP(p tmjson.VerifJSONCommitProof, sorted bool) string {
	return fmt.Sprintf("(mk_jcommit_proof %d %s %s)", p.Round, tGB(p.PubKeyHash), tEntries(p.Commits, sorted))
}
func tJVals(vs []tmjson.VerifJSONValidator) string {
	if vs == nil {
		return "None"
	}
	parts := make([]string, len(vs))
	for i, v := range vs {
		parts[i] = fmt.Sprintf("mk_jvalidator %s %d", tGB(v.PubKey), v.Power)
	}
	return "(Some [" + strings.Join(parts, ";") + "])"
}
func tJHeader(j tmjson.VerifJSONHeader, sorted bool) string {
	return fmt.Sprintf("(mk_jheader %s %s %d %s (mk_jvalset %s %s %s) (mk_jvalset %s %s %s) %s %s %s %s)",
		tGB(j.Hash), tGB(j.PrevBlockHash), j.Height, tJCP(j.PrevCommitProof, sorted),
		tJVals(j.ValidatorSet.Validators), tGB(j.ValidatorSet.PubKeyHash), tGB(j.ValidatorSet.VotePowerHash),
		tJVals(j.NextValidatorSet.Validators), tGB(j.NextValidatorSet.PubKeyHash), tGB(j.NextValidatorSet.VotePowerHash),
		tGB(j.DataID), tGB(j.PrevAppStateHash), tGB(j.UserAnnotation), tGB(j.DriverAnnotation))
}
func tJProposed(j tmjson.VerifJSONProposedHeader, sorted bool) string {
	return fmt.Sprintf("(mk_jproposed %s %d %s %s %s %s)", tJHeader(j.Header, sorted), j.Round, tGB(j.ProposerPubKey),
		tGB(j.Signature), tGB(j.UserAnnotation), tGB(j.DriverAnnotation))
}
func tJCommitted(j tmjson.VerifJSONCommittedHeader, sorted bool) string {
	return fmt.Sprintf("(mk_jcommitted %s %s)", tJHeader(j.Header, sorted), tJCP(j.Proof, sorted))
}
func tJSparse(j tmjson.VerifJSONSparseProof) string {
	return fmt.Sprintf("(mk_jsparse %d %d %s %s)", j.Height, j.Round, tGB(j.PubKeyHash), tEntries(j.Proofs, false))
}

// ---------------------------------------------------------------- outcomes

// guard runs f and classifies: "V" value, "E" error, "P" panic.
func guard(f func() error) (class string) {
	defer func() {
		if r := recover(); r != nil {
			class = "P"
		}
	}()
	if err := f(); err != nil {
		return "E"
	}
	return "V"
}
func tOut(class, val string) string {
	switch class {
	case "V":
		return "(Ok (Some " + val + "))"
	case "E":
		return "(Ok None)"
	}
	return "(Panic \"go\")"
}
func tRes(class, val string) string {
	if class == "V" {
		return "(Ok " + val + ")"
	}
	return "(Panic \"go\")"
}

var out *bufio.Writer

func emit(fields ...string) {
	out.WriteString(strings.Join(fields, "\t"))
	out.WriteByte('\n')
}

func docField(b []byte) string { return base64.StdEncoding.EncodeToString(b) }

// ---------------------------------------------------------------- value generators

type gen struct {
	r     *rng
	wild  bool // allow values outside the theorem's well-formedness hypothesis
	small bool
}

func (g *gen) bytesN(n int) []byte {
	b := make([]byte, n)
	for i := range b {
		b[i] = byte(g.r.next())
	}
	return b
}
func (g *gen) gb() []byte {
	switch g.r.below(10) {
	case 0, 1:
		return nil
	case 2:
		return []byte{}
	case 3:
		return g.bytesN(1 + g.r.below(3))
	case 4:
		return []byte{0, 0, 0}
	}
	if g.small {
		return g.bytesN(1 + g.r.below(6))
	}
	return g.bytesN(1 + g.r.below(33))
}
func (g *gen) str() string {
	switch g.r.below(6) {
	case 0:
		return ""
	case 1:
		return string(g.bytesN(1))
	}
	return string(g.bytesN(1 + g.r.below(12)))
}
func (g *gen) key() gcrypto.PubKey {
	x := g.r.below(100)
	switch {
	case x < 55:
		n := 32
		if g.small {
			n = 6
		}
		return gcrypto.Ed25519PubKey(g.bytesN(n))
	case x < 62:
		return gcrypto.Ed25519PubKey(g.bytesN(g.r.below(9))) // odd lengths incl. 0
	case x < 66:
		return gcrypto.Ed25519PubKey(nil)
	case x < 70:
		return gcrypto.Ed25519PubKey([]byte{0, 0, 7, 0, 0}) // zero bytes next to the prefix padding
	case x < 92:
		return fixKey(g.bytesN(4))
	}
	if g.wild {
		switch g.r.below(3) {
		case 0:
			return nil
		case 1:
			return unregKey(g.bytesN(3))
		default:
			return fixKey(g.bytesN(5)) // marshals, but its constructor refuses it
		}
	}
	return fixKey(g.bytesN(4))
}
func (g *gen) power() uint64 {
	switch g.r.below(6) {
	case 0:
		return 0
	case 1:
		return ^uint64(0)
	case 2:
		return 1 << 53
	}
	return g.r.next() >> uint(g.r.below(64))
}
func (g *gen) valset() tmconsensus.ValidatorSet {
	var vs tmconsensus.ValidatorSet
	switch x := g.r.below(12); {
	case x == 0:
		// nil validators, nil pubkeys
	case x == 1:
		vs.Validators = []tmconsensus.Validator{}
		if g.r.chance(1, 2) {
			vs.PubKeys = []gcrypto.PubKey{}
		}
	default:
		n := 1 + g.r.below(5)
		for i := 0; i < n; i++ {
			vs.Validators = append(vs.Validators, tmconsensus.Validator{PubKey: g.key(), Power: g.power()})
		}
		for _, v := range vs.Validators {
			vs.PubKeys = append(vs.PubKeys, v.PubKey)
		}
		if g.wild && g.r.chance(1, 6) {
			// PubKeys not the projection of Validators
			switch g.r.below(3) {
			case 0:
				vs.PubKeys = nil
			case 1:
				vs.PubKeys = vs.PubKeys[:len(vs.PubKeys)-1]
			default:
				vs.PubKeys[0] = fixKey(g.bytesN(4))
			}
		}
	}
	vs.PubKeyHash = g.gb()
	vs.VotePowerHash = g.gb()
	return vs
}
func (g *gen) sigs() []gcrypto.SparseSignature {
	switch g.r.below(8) {
	case 0:
		return nil
	case 1:
		return []gcrypto.SparseSignature{}
	}
	n := 1 + g.r.below(3)
	s := make([]gcrypto.SparseSignature, n)
	for i := range s {
		s[i] = gcrypto.SparseSignature{KeyID: g.gb(), Sig: g.gb()}
	}
	return s
}
func (g *gen) pmap() map[string][]gcrypto.SparseSignature {
	switch g.r.below(8) {
	case 0:
		return nil
	case 1:
		return map[string][]gcrypto.SparseSignature{}
	}
	n := 1 + g.r.below(4)
	m := make(map[string][]gcrypto.SparseSignature, n)
	for i := 0; i < n; i++ {
		k := g.str()
		if i == 0 && g.r.chance(1, 3) {
			k = "" // the nil block
		}
		if i > 0 && g.r.chance(1, 4) {
			// a key that is a prefix / extension of another key
			for o := range m {
				k = o + "\x00"
				break
			}
		}
		m[k] = g.sigs()
	}
	return m
}
func (g *gen) commitProof() tmconsensus.CommitProof {
	if g.r.chance(1, 8) {
		return tmconsensus.CommitProof{}
	}
	return tmconsensus.CommitProof{Round: uint32(g.r.next() >> uint(32+g.r.below(32))), PubKeyHash: g.str(), Proofs: g.pmap()}
}
func (g *gen) header() tmconsensus.Header {
	h := tmconsensus.Header{
		Hash: g.gb(), PrevBlockHash: g.gb(),
		Height:          g.r.next() >> uint(g.r.below(64)),
		PrevCommitProof: g.commitProof(),
		ValidatorSet:    g.valset(), NextValidatorSet: g.valset(),
		DataID: g.gb(), PrevAppStateHash: g.gb(),
		Annotations: tmconsensus.Annotations{User: g.gb(), Driver: g.gb()},
	}
	if g.r.chance(1, 10) {
		h.Height = ^uint64(0)
	}
	return h
}
func (g *gen) proposed() tmconsensus.ProposedHeader {
	p := tmconsensus.ProposedHeader{
		Header: g.header(), Round: uint32(g.r.next() >> uint(32+g.r.below(32))),
		Annotations: tmconsensus.Annotations{User: g.gb(), Driver: g.gb()},
		Signature:   g.gb(),
	}
	if !g.r.chance(1, 5) {
		p.ProposerPubKey = g.key()
	}
	return p
}
func (g *gen) committed() tmconsensus.CommittedHeader {
	return tmconsensus.CommittedHeader{Header: g.header(), Proof: g.commitProof()}
}
func (g *gen) prevote() tmconsensus.PrevoteSparseProof {
	return tmconsensus.PrevoteSparseProof{Height: g.r.next() >> uint(g.r.below(64)), Round: uint32(g.r.next() >> uint(32+g.r.below(32))), PubKeyHash: g.str(), Proofs: g.pmap()}
}
func (g *gen) precommit() tmconsensus.PrecommitSparseProof {
	return tmconsensus.PrecommitSparseProof(g.prevote())
}
func (g *gen) cmsg() tmcodec.ConsensusMessage {
	var m tmcodec.ConsensusMessage
	x := g.r.below(10)
	if g.wild && x == 9 {
		// zero or several variants set ("behavior is undefined")
		if g.r.chance(1, 3) {
			return m
		}
		x = 10
	}
	switch {
	case x < 4:
		p := g.proposed()
		m.ProposedHeader = &p
	case x < 7:
		p := g.prevote()
		m.PrevoteProof = &p
	case x < 10:
		p := g.precommit()
		m.PrecommitProof = &p
	default:
		if g.r.chance(1, 2) {
			p := g.proposed()
			m.ProposedHeader = &p
		}
		p := g.prevote()
		m.PrevoteProof = &p
		q := g.precommit()
		m.PrecommitProof = &q
	}
	return m
}

// ---------------------------------------------------------------- round-trip cases

func sortCommits(p *tmjson.VerifJSONCommitProof) {
	sort.SliceStable(p.Commits, func(i, j int) bool { return bytes.Compare(p.Commits[i].BlockHash, p.Commits[j].BlockHash) < 0 })
}

func rtCase(c tmjson.MarshalCodec, g *gen, kind string, idx int) {
	id := strconv.Itoa(idx)
	reg := c.CryptoRegistry
	switch kind {
	case "H":
		v := g.header()
		var doc []byte
		var got tmconsensus.Header
		var hook tmjson.VerifJSONHeader
		hc := guard(func() error { hook = tmjson.VerifToJSONHeader(v, reg); return nil })
		cl := guard(func() (err error) { doc, err = c.MarshalHeader(v); return })
		ident := "1"
		if cl == "V" {
			cl = guard(func() error { return c.UnmarshalHeader(doc, &got) })
			var j3 tmjson.VerifJSONHeader
			h2 := hook
			sortCommits(&h2.PrevCommitProof)
			if json.Unmarshal(doc, &j3) != nil {
				ident = "0"
			} else {
				sortCommits(&j3.PrevCommitProof)
				if !reflect.DeepEqual(j3, h2) {
					ident = "0"
				}
			}
		}
		emit("RT", kind, id, tHeader(v), tRes(hc, tJHeader(hook, true)), tOut(cl, tHeader(got)), ident, docField(doc))
	case "PH":
		v := g.proposed()
		var doc []byte
		var got tmconsensus.ProposedHeader
		var hook tmjson.VerifJSONProposedHeader
		hc := guard(func() error { hook = tmjson.VerifToJSONProposedHeader(v, reg); return nil })
		cl := guard(func() (err error) { doc, err = c.MarshalProposedHeader(v); return })
		ident := "1"
		if cl == "V" {
			cl = guard(func() error { return c.UnmarshalProposedHeader(doc, &got) })
			var j3 tmjson.VerifJSONProposedHeader
			h2 := hook
			sortCommits(&h2.Header.PrevCommitProof)
			if json.Unmarshal(doc, &j3) != nil {
				ident = "0"
			} else {
				sortCommits(&j3.Header.PrevCommitProof)
				if !reflect.DeepEqual(j3, h2) {
					ident = "0"
				}
			}
		}
		emit("RT", kind, id, tProposed(v), tRes(hc, tJProposed(hook, true)), tOut(cl, tProposed(got)), ident, docField(doc))
	case "CH":
		v := g.committed()
		var doc []byte
		var got tmconsensus.CommittedHeader
		var hook tmjson.VerifJSONCommittedHeader
		hc := guard(func() error { hook = tmjson.VerifToJSONCommittedHeader(v, reg); return nil })
		cl := guard(func() (err error) { doc, err = c.MarshalCommittedHeader(v); return })
		ident := "1"
		if cl == "V" {
			cl = guard(func() error { return c.UnmarshalCommittedHeader(doc, &got) })
			var j3 tmjson.VerifJSONCommittedHeader
			h2 := hook
			sortCommits(&h2.Header.PrevCommitProof)
			sortCommits(&h2.Proof)
			if json.Unmarshal(doc, &j3) != nil {
				ident = "0"
			} else {
				sortCommits(&j3.Header.PrevCommitProof)
				sortCommits(&j3.Proof)
				if !reflect.DeepEqual(j3, h2) {
					ident = "0"
				}
			}
		}
		emit("RT", kind, id, tCommitted(v), tRes(hc, tJCommitted(hook, true)), tOut(cl, tCommitted(got)), ident, docField(doc))
	case "PV":
		v := g.prevote()
		var doc []byte
		var got tmconsensus.PrevoteSparseProof
		cl := guard(func() (err error) { doc, err = c.MarshalPrevoteProof(v); return })
		var js tmjson.VerifJSONSparseProof
		hc := "P"
		if cl == "V" {
			cl = guard(func() error { return c.UnmarshalPrevoteProof(doc, &got) })
			if json.Unmarshal(doc, &js) == nil {
				hc = "V"
			}
		}
		emit("RT", kind, id, tSparse(v.Height, v.Round, v.PubKeyHash, v.Proofs), tRes(hc, tJSparse(js)),
			tOut(cl, tSparse(got.Height, got.Round, got.PubKeyHash, got.Proofs)), "1", docField(doc))
	case "PC":
		v := g.precommit()
		var doc []byte
		var got tmconsensus.PrecommitSparseProof
		cl := guard(func() (err error) { doc, err = c.MarshalPrecommitProof(v); return })
		var js tmjson.VerifJSONSparseProof
		hc := "P"
		if cl == "V" {
			cl = guard(func() error { return c.UnmarshalPrecommitProof(doc, &got) })
			if json.Unmarshal(doc, &js) == nil {
				hc = "V"
			}
		}
		emit("RT", kind, id, tSparse(v.Height, v.Round, v.PubKeyHash, v.Proofs), tRes(hc, tJSparse(js)),
			tOut(cl, tSparse(got.Height, got.Round, got.PubKeyHash, got.Proofs)), "1", docField(doc))
	case "CM":
		v := g.cmsg()
		var doc []byte
		var got tmcodec.ConsensusMessage
		cl := guard(func() (err error) { doc, err = c.MarshalConsensusMessage(v); return })
		if cl == "V" {
			cl = guard(func() error { return c.UnmarshalConsensusMessage(doc, &got) })
		}
		emit("RT", kind, id, tCmsg(v), "(Ok tt)", tOut(cl, tCmsg(got)), "1", docField(doc))
	}
}

// ---------------------------------------------------------------- decode cases

var kinds = []string{"H", "PH", "CH", "PV", "PC", "CM"}

func tRaw(raw json.RawMessage, inner func([]byte) (string, bool)) string {
	if raw == nil {
		return "RawNil"
	}
	t, ok := inner(raw)
	if !ok {
		return "RawBad"
	}
	return "(RawOk " + t + ")"
}

// decCase feeds doc to the Unmarshal method of the given kind.
func decCase(c tmjson.MarshalCodec, kind string, idx int, class string, doc []byte) {
	id := strconv.Itoa(idx)
	var st, ob string
	switch kind {
	case "H":
		var j tmjson.VerifJSONHeader
		if json.Unmarshal(doc, &j) != nil {
			st = "JSONERR"
		} else {
			st = tJHeader(j, false)
		}
		var got tmconsensus.Header
		cl := guard(func() error { return c.UnmarshalHeader(doc, &got) })
		ob = tOut(cl, tHeader(got))
	case "PH":
		var j tmjson.VerifJSONProposedHeader
		if json.Unmarshal(doc, &j) != nil {
			st = "JSONERR"
		} else {
			st = tJProposed(j, false)
		}
		var got tmconsensus.ProposedHeader
		cl := guard(func() error { return c.UnmarshalProposedHeader(doc, &got) })
		ob = tOut(cl, tProposed(got))
	case "CH":
		var j tmjson.VerifJSONCommittedHeader
		if json.Unmarshal(doc, &j) != nil {
			st = "JSONERR"
		} else {
			st = tJCommitted(j, false)
		}
		var got tmconsensus.CommittedHeader
		cl := guard(func() error { return c.UnmarshalCommittedHeader(doc, &got) })
		ob = tOut(cl, tCommitted(got))
	case "PV", "PC":
		var j tmjson.VerifJSONSparseProof
		if json.Unmarshal(doc, &j) != nil {
			st = "JSONERR"
		} else {
			st = tJSparse(j)
		}
		if kind == "PV" {
			var got tmconsensus.PrevoteSparseProof
			cl := guard(func() error { return c.UnmarshalPrevoteProof(doc, &got) })
			ob = tOut(cl, tSparse(got.Height, got.Round, got.PubKeyHash, got.Proofs))
		} else {
			var got tmconsensus.PrecommitSparseProof
			cl := guard(func() error { return c.UnmarshalPrecommitProof(doc, &got) })
			ob = tOut(cl, tSparse(got.Height, got.Round, got.PubKeyHash, got.Proofs))
		}
	case "CM":
		var j tmjson.VerifJSONConsensusMessage
		if json.Unmarshal(doc, &j) != nil {
			st = "JSONERR"
		} else {
			ph := tRaw(j.ProposedHeader, func(b []byte) (string, bool) {
				var x tmjson.VerifJSONProposedHeader
				if json.Unmarshal(b, &x) != nil {
					return "", false
				}
				return tJProposed(x, false), true
			})
			sp := func(b []byte) (string, bool) {
				var x tmjson.VerifJSONSparseProof
				if json.Unmarshal(b, &x) != nil {
					return "", false
				}
				return tJSparse(x), true
			}
			st = fmt.Sprintf("(mk_jcmsg %s %s %s)", ph, tRaw(j.PrevoteProof, sp), tRaw(j.PrecommitProof, sp))
		}
		var got tmcodec.ConsensusMessage
		cl := guard(func() error { return c.UnmarshalConsensusMessage(doc, &got) })
		ob = tOut(cl, tCmsg(got))
	}
	emit("DEC", kind, id, st, ob, class, docField(doc))
}

// ---------------------------------------------------------------- hostile documents

type slot struct {
	parent any // map[string]any or []any
	key    string
	idx    int
}

func collect(v any, path string, acc *[]slot, names *[]string) {
	switch t := v.(type) {
	case map[string]any:
		ks := make([]string, 0, len(t))
		for k := range t {
			ks = append(ks, k)
		}
		sort.Strings(ks)
		for _, k := range ks {
			*acc = append(*acc, slot{parent: t, key: k})
			*names = append(*names, k)
			collect(t[k], path+"."+k, acc, names)
		}
	case []any:
		for i := range t {
			*acc = append(*acc, slot{parent: t, idx: i})
			*names = append(*names, "[]")
			collect(t[i], path+"[]", acc, names)
		}
	}
}
func (s slot) get() any {
	if m, ok := s.parent.(map[string]any); ok {
		return m[s.key]
	}
	return s.parent.([]any)[s.idx]
}
func (s slot) set(v any) {
	if m, ok := s.parent.(map[string]any); ok {
		m[s.key] = v
		return
	}
	s.parent.([]any)[s.idx] = v
}

func b64(b []byte) string { return base64.StdEncoding.EncodeToString(b) }

// mutate applies one hostile edit to the generic JSON tree and names it.
func mutate(r *rng, root any) (any, string) {
	var slots []slot
	var names []string
	collect(root, "", &slots, &names)
	if len(slots) == 0 {
		return map[string]any{"Height": "x"}, "wrongtype"
	}
	pick := r.below(len(slots))
	// bias towards public key fields and entry lists
	if r.chance(1, 2) {
		var idxs []int
		for i, n := range names {
			if strings.Contains(n, "PubKey") && !strings.Contains(n, "Hash") {
				idxs = append(idxs, i)
			}
		}
		if len(idxs) > 0 {
			pick = idxs[r.below(len(idxs))]
		}
	}
	s := slots[pick]
	cur := s.get()
	op := r.below(13)
	switch op {
	case 0:
		if m, ok := s.parent.(map[string]any); ok {
			delete(m, s.key)
			return root, "absent"
		}
		s.set(nil)
		return root, "null"
	case 1:
		s.set(nil)
		return root, "null"
	case 2, 3:
		if str, ok := cur.(string); ok {
			b, _ := base64.StdEncoding.DecodeString(str)
			n := r.below(10)
			if n > len(b) {
				n = len(b)
			}
			s.set(b64(b[:n]))
			return root, "shortbytes"
		}
		s.set("")
		return root, "emptystring"
	case 4:
		alts := []any{json.Number("7"), "AAAA", []any{}, map[string]any{}, true, json.Number("-1"), json.Number("1.5"), []any{json.Number("1")}}
		s.set(alts[r.below(len(alts))])
		return root, "wrongtype"
	case 5:
		if arr, ok := cur.([]any); ok && len(arr) > 0 {
			n := 1 + r.below(3)
			for i := 0; i < n; i++ {
				arr = append(arr, arr[r.below(len(arr))])
			}
			s.set(arr)
			return root, "duplicate"
		}
		s.set([]any{})
		return root, "emptyarray"
	case 6:
		if str, ok := cur.(string); ok {
			b, _ := base64.StdEncoding.DecodeString(str)
			if len(b) >= 8 {
				pre := [][]byte{[]byte("fixkey08"), []byte("ed25519\x00"), []byte("nosuch\x00\x00"), {0, 0, 0, 0, 0, 0, 0, 0}, []byte("ed25519x"), []byte("ed2551\x00\x00")}
				copy(b, pre[r.below(len(pre))])
				if r.chance(1, 3) {
					b = b[:8+r.below(len(b)-7)]
				}
				s.set(b64(b))
				return root, "prefix"
			}
		}
		s.set(b64([]byte("ed25519")))
		return root, "shortbytes"
	case 7:
		nums := []string{"18446744073709551615", "18446744073709551616", "4294967295", "4294967296", "-1", "0", "1e3", "0.5"}
		s.set(json.Number(nums[r.below(len(nums))]))
		return root, "number"
	case 8:
		if m, ok := s.parent.(map[string]any); ok {
			v := m[s.key]
			delete(m, s.key)
			if r.chance(1, 2) {
				m[strings.ToLower(s.key)] = v
			} else {
				m[strings.ToUpper(s.key)] = v
			}
			return root, "fieldcase"
		}
		s.set(map[string]any{"Unknown": json.Number("1")})
		return root, "wrongtype"
	case 9:
		if m, ok := s.parent.(map[string]any); ok {
			m["Extra"+s.key] = cur
			return root, "unknownfield"
		}
		s.set("!!!not-base64!!!")
		return root, "badbase64"
	case 10:
		s.set("!!!not-base64!!!")
		return root, "badbase64"
	case 11:
		// huge count
		n := 500 + r.below(2500)
		arr := make([]any, n)
		var elem any = map[string]any{}
		if a, ok := cur.([]any); ok && len(a) > 0 && r.chance(1, 2) {
			elem = a[0]
		}
		for i := range arr {
			arr[i] = elem
		}
		s.set(arr)
		return root, "hugecount"
	default:
		// 1..9 raw bytes as a key-like field
		s.set(b64([]byte("ed25519\x00abc")[:1+r.below(11)]))
		return root, "shortbytes"
	}
}

func rawDocs(r *rng) [][]byte {
	deep := strings.Repeat("[", 3000) + strings.Repeat("]", 3000)
	docs := []string{"", "null", "[]", "{}", "{", "123", `"x"`, "true", `{"Header":null}`, `{"Height":-1}`,
		`{"ValidatorSet":{"Validators":[{}]}}`, `{"ValidatorSet":{"Validators":[{"PubKey":""}]}}`,
		`{"ValidatorSet":{"Validators":[{"PubKey":null,"Power":1}]}}`,
		`{"NextValidatorSet":{"Validators":[{"PubKey":"ZWQyNTUxOQ=="}]}}`,
		`{"Header":{"ValidatorSet":{"Validators":[{"PubKey":"ZWQyNTUxOQA="}]}}}`,
		`{"ProposerPubKey":""}`, `{"ProposerPubKey":"AAAA"}`, `{"ProposerPubKey":null}`,
		`{"ProposedHeader":null}`, `{"ProposedHeader":{}}`, `{"ProposedHeader":{"ProposerPubKey":"AA=="}}`,
		`{"PrevoteProof":null,"PrecommitProof":{}}`, `{"PrevoteProof":[],"PrecommitProof":{}}`,
		`{"ProposedHeader":1,"PrevoteProof":{}}`, `{"PrevoteProof":{"Proofs":[{"BlockHash":"","Signatures":null},{"BlockHash":null,"Signatures":[]}]}}`,
		`{"PrecommitProof":{"Proofs":[{"BlockHash":"QQ==","Signatures":[{"KeyID":"AQ==","Sig":"Ag=="}]},{"BlockHash":"QQ==","Signatures":[]}]}}`,
		`{"Proofs":[{"BlockHash":"QQ=="},{"BlockHash":"QQ==","Signatures":[{}]}],"Height":3}`,
		`{"Proof":{"Commits":[{"BlockHash":"QQ=="},{"BlockHash":"QQ==","Signatures":[{}]}],"PubKeyHash":""}}`,
		`{"PrevCommitProof":{"Commits":[{"BlockHash":"QQ=="}]}}`, `{"PrevCommitProof":{"PubKeyHash":"","Commits":[{"BlockHash":"QQ=="}]}}`,
		`{"proposedheader":{"round":7}}`, `{"Round":4294967296}`, `{"Height":18446744073709551616}`, deep,
		`{"ValidatorSet":{"Validators":[{"PubKey":"Zml4a2V5MDgBAgME","Power":18446744073709551615}]}}`,
		`{"ValidatorSet":{"Validators":[{"PubKey":"Zml4a2V5MDgBAgM=","Power":1}]}}`,
	}
	out := make([][]byte, 0, len(docs)+4)
	for _, d := range docs {
		out = append(out, []byte(d))
	}
	for i := 0; i < 4; i++ {
		n := 1 + r.below(40)
		b := make([]byte, n)
		for j := range b {
			b[j] = byte(r.next())
		}
		out = append(out, b)
	}
	return out
}

func validDoc(c tmjson.MarshalCodec, g *gen, kind string) []byte {
	var doc []byte
	guard(func() (err error) {
		switch kind {
		case "H":
			doc, err = c.MarshalHeader(g.header())
		case "PH":
			doc, err = c.MarshalProposedHeader(g.proposed())
		case "CH":
			doc, err = c.MarshalCommittedHeader(g.committed())
		case "PV":
			doc, err = c.MarshalPrevoteProof(g.prevote())
		case "PC":
			doc, err = c.MarshalPrecommitProof(g.precommit())
		case "CM":
			doc, err = c.MarshalConsensusMessage(g.cmsg())
		}
		return
	})
	if doc == nil {
		doc = []byte("{}")
	}
	return doc
}

func main() {
	seed := flag.Uint64("seed", 1, "PRNG seed")
	nrt := flag.Int("nrt", 60, "round-trip cases per kind")
	ndoc := flag.Int("ndoc", 100, "hostile documents (each is fed to every Unmarshal method)")
	docFile := flag.String("doc", "", "replay: file with one JSON document")
	kindF := flag.String("kind", "", "replay: restrict to one Unmarshal method")
	flag.Parse()
	out = bufio.NewWriterSize(os.Stdout, 1<<20)
	defer out.Flush()
	c := newCodec()

	if *docFile != "" {
		doc, err := os.ReadFile(*docFile)
		if err != nil {
			fmt.Fprintln(os.Stderr, err)
			os.Exit(2)
		}
		for _, k := range kinds {
			if *kindF == "" || *kindF == k {
				decCase(c, k, 0, "replay", doc)
			}
		}
		return
	}

	r := &rng{s: *seed}
	idx := 0
	for i := 0; i < *nrt; i++ {
		for _, k := range kinds {
			g := &gen{r: r, wild: i%5 == 4, small: i%3 == 1}
			rtCase(c, g, k, idx)
			idx++
		}
	}
	// hostile stream
	var docs [][]byte
	var classes []string
	for _, d := range rawDocs(r) {
		docs = append(docs, d)
		classes = append(classes, "raw")
	}
	for i := 0; i < *ndoc; i++ {
		k := kinds[i%len(kinds)]
		g := &gen{r: r, wild: false, small: true}
		doc := validDoc(c, g, k)
		var tree any
		d := json.NewDecoder(bytes.NewReader(doc))
		d.UseNumber()
		if d.Decode(&tree) != nil {
			continue
		}
		nm := 1 + r.below(3)
		var cls []string
		for j := 0; j < nm; j++ {
			var cl string
			tree, cl = mutate(r, tree)
			cls = append(cls, cl)
		}
		b, err := json.Marshal(tree)
		if err != nil {
			continue
		}
		if r.chance(1, 25) && len(b) > 2 {
			b = b[:r.below(len(b))]
			cls = append(cls, "truncated")
		}
		docs = append(docs, b)
		classes = append(classes, strings.Join(cls, "+"))
	}
	for i, d := range docs {
		for _, k := range kinds {
			decCase(c, k, idx, classes[i], d)
			idx++
		}
	}
}
