// Harness for C13 (simple scheme): drives the REAL gcrypto.SimpleCommonMessageSignatureProof
// and its scheme on operation sequences read from stdin (one JSON case per line) and prints
// one line of integers per operation (the projected observables), "C <i>" before each case.
// 999 = panic, 998 = unknown register.
package main

import (
	"bufio"
	"crypto/ed25519"
	"crypto/sha256"
	"crypto/sha512"
	"encoding/json"
	"fmt"
	"math/big"
	"os"
	"sort"
	"strings"

	"github.com/bits-and-blooms/bitset"
	"github.com/gordian-engine/gordian/gcrypto"
)

type Ent struct {
	ID  []int `json:"id"`
	Sig int   `json:"sig"`
}

type RestEnt struct {
	Msg  []int `json:"msg"`
	Sigs []Ent `json:"sigs"`
}

type HashEnt struct {
	Msg  []int `json:"msg"`
	Hash []int `json:"hash"`
}

type Fin struct {
	Keys     []int     `json:"keys"`
	Hash     []int     `json:"hash"`
	MainMsg  []int     `json:"mainmsg"`
	MainSigs []Ent     `json:"mainsigs"`
	Rest     []RestEnt `json:"rest"`
}

type Op struct {
	Op     string    `json:"op"`
	R      int       `json:"r"`
	O      int       `json:"o"`
	To     int       `json:"to"`
	Msg    []int     `json:"msg"`
	Keys   []int     `json:"keys"`
	Hash   []int     `json:"hash"`
	Sig    int       `json:"sig"`
	Key    int       `json:"key"`
	Ents   []Ent     `json:"ents"`
	ID     []int     `json:"id"`
	Rest   []int     `json:"rest"`
	Hashes []HashEnt `json:"hashes"`
	F      *Fin      `json:"f"`
	NKeys  int       `json:"nkeys"`
}

type Case struct {
	Sigs [][]int `json:"sigs"` // [1,k,msgidx,salt] | [2,n,0,0]
	Msgs [][]int `json:"msgs"`
	Ops  []Op    `json:"ops"`
}

func bs(x []int) []byte {
	b := make([]byte, len(x))
	for i, v := range x {
		b[i] = byte(v)
	}
	return b
}

var privs = map[int]ed25519.PrivateKey{}

func priv(k int) ed25519.PrivateKey {
	if p, ok := privs[k]; ok {
		return p
	}
	seed := sha256.Sum256([]byte(fmt.Sprintf("verif-c13-key-%d", k)))
	p := ed25519.NewKeyFromSeed(seed[:])
	privs[k] = p
	return p
}

func pub(k int) gcrypto.PubKey {
	return gcrypto.Ed25519PubKey(priv(k).Public().(ed25519.PublicKey))
}

func pubs(ks []int) []gcrypto.PubKey {
	out := make([]gcrypto.PubKey, len(ks))
	for i, k := range ks {
		out[i] = pub(k)
	}
	return out
}

// sigBytes realises an ideal signature: Good k m 0 = the real ed25519 signature of message m under key k;
// Junk n = bytes that verify under no key for no generated message.
func sigBytes(c *Case, spec []int) []byte {
	if spec[0] == 1 {
		return ed25519.Sign(priv(spec[1]), bs(c.Msgs[spec[2]]))
	}
	n := spec[1]
	h := sha512.Sum512([]byte(fmt.Sprintf("verif-c13-junk-%d", n)))
	switch n % 4 {
	case 0:
		return h[:]
	case 1: // a well-formed signature of an unrelated message
		return ed25519.Sign(priv(n/4%7), []byte(fmt.Sprintf("unrelated-%d", n)))
	case 2: // truncated
		return h[:63]
	default:
		if n%8 == 3 {
			return []byte{}
		}
		s := ed25519.Sign(priv(n/8%7), []byte(fmt.Sprintf("unrelated-%d", n)))
		s[n%64] ^= 1 << (uint(n/64) % 8)
		return s
	}
}

func bitsStr(b *bitset.BitSet) string {
	z := new(big.Int)
	for u, ok := b.NextSet(0); ok; u, ok = b.NextSet(u + 1) {
		z.SetBit(z, int(u), 1)
	}
	return z.String()
}

func proofBits(p gcrypto.CommonMessageSignatureProof) string {
	var b bitset.BitSet
	p.SignatureBitSet(&b)
	return bitsStr(&b)
}

func b2n(b bool) string {
	if b {
		return "1"
	}
	return "0"
}

func lexLess(a, b []string) bool {
	// numeric lexicographic comparison, shorter prefix first
	for i := 0; i < len(a) && i < len(b); i++ {
		x, _ := new(big.Int).SetString(a[i], 10)
		y, _ := new(big.Int).SetString(b[i], 10)
		if c := x.Cmp(y); c != 0 {
			return c < 0
		}
	}
	return len(a) < len(b)
}

type runner struct {
	c      *Case
	sigs   [][]byte
	tokens map[string]int
	regs   map[int]gcrypto.CommonMessageSignatureProof
}

func (r *runner) ents(es []Ent) []gcrypto.SparseSignature {
	out := make([]gcrypto.SparseSignature, len(es))
	for i, e := range es {
		out[i] = gcrypto.SparseSignature{KeyID: bs(e.ID), Sig: r.sigs[e.Sig]}
	}
	return out
}

func (r *runner) flags(res gcrypto.SignatureProofMergeResult, p gcrypto.CommonMessageSignatureProof) string {
	return strings.Join([]string{b2n(res.AllValidSignatures), b2n(res.IncreasedSignatures), b2n(res.WasStrictSuperset), proofBits(p)}, " ")
}

func (r *runner) sparseObs(s gcrypto.SparseSignatureProof) string {
	out := []string{fmt.Sprint(len(s.PubKeyHash))}
	for _, b := range []byte(s.PubKeyHash) {
		out = append(out, fmt.Sprint(b))
	}
	var rows [][]string
	for _, e := range s.Signatures {
		row := []string{fmt.Sprint(len(e.KeyID))}
		for _, b := range e.KeyID {
			row = append(row, fmt.Sprint(b))
		}
		tok, ok := r.tokens[string(e.Sig)]
		if !ok {
			tok = 9999
		}
		row = append(row, fmt.Sprint(tok))
		rows = append(rows, row)
	}
	sort.SliceStable(rows, func(i, j int) bool { return lexLess(rows[i], rows[j]) })
	for _, row := range rows {
		out = append(out, row...)
	}
	return strings.Join(out, " ")
}

func hashesMap(hs []HashEnt) map[string]string {
	m := make(map[string]string, len(hs))
	for _, h := range hs {
		if _, ok := m[string(bs(h.Msg))]; !ok { // first entry wins, as the model's association list
			m[string(bs(h.Msg))] = string(bs(h.Hash))
		}
	}
	return m
}

func validateObs(out map[string]*bitset.BitSet, unique bool) string {
	if out == nil {
		return "0 " + b2n(unique)
	}
	var rows [][]string
	for h, b := range out {
		row := []string{}
		for _, x := range []byte(h) {
			row = append(row, fmt.Sprint(x))
		}
		rows = append(rows, append(append([]string{fmt.Sprint(len(h))}, row...), bitsStr(b)))
	}
	// the model sorts by hash bytes only; hashes are distinct map keys
	sort.SliceStable(rows, func(i, j int) bool {
		a, b := rows[i], rows[j]
		return lexLess(a[1:len(a)-1], b[1:len(b)-1])
	})
	res := []string{"1", b2n(unique)}
	for _, row := range rows {
		res = append(res, row...)
	}
	return strings.Join(res, " ")
}

func (r *runner) step(o Op) (obs string) {
	defer func() {
		if rec := recover(); rec != nil {
			obs = "999"
		}
	}()
	scheme := gcrypto.SimpleCommonMessageSignatureProofScheme{}
	get := func(i int) gcrypto.CommonMessageSignatureProof { return r.regs[i] }
	switch o.Op {
	case "new":
		p, err := scheme.New(bs(o.Msg), pubs(o.Keys), string(bs(o.Hash)))
		if err != nil {
			return "997"
		}
		r.regs[o.R] = p
		return "0"
	case "add":
		p := get(o.R)
		if p == nil {
			return "998"
		}
		err := p.AddSignature(r.sigs[o.Sig], pub(o.Key))
		code := "0"
		switch err {
		case nil:
		case gcrypto.ErrUnknownKey:
			code = "1"
		case gcrypto.ErrInvalidSignature:
			code = "2"
		default:
			code = "3"
		}
		return code + " " + proofBits(p)
	case "merge":
		p, q := get(o.R), get(o.O)
		if p == nil || q == nil {
			return "998"
		}
		return r.flags(p.Merge(q), p)
	case "msparse":
		p := get(o.R)
		if p == nil {
			return "998"
		}
		res := p.MergeSparse(gcrypto.SparseSignatureProof{PubKeyHash: string(bs(o.Hash)), Signatures: r.ents(o.Ents)})
		return r.flags(res, p)
	case "mfrom":
		p, q := get(o.R), get(o.O)
		if p == nil || q == nil {
			return "998"
		}
		return r.flags(p.MergeSparse(q.AsSparse()), p)
	case "has":
		p := get(o.R)
		if p == nil {
			return "998"
		}
		h, v := p.HasSparseKeyID(bs(o.ID))
		return b2n(h) + " " + b2n(v)
	case "sparse":
		p := get(o.R)
		if p == nil {
			return "998"
		}
		return r.sparseObs(p.AsSparse())
	case "clone":
		p := get(o.R)
		if p == nil {
			return "998"
		}
		r.regs[o.To] = p.Clone()
		return proofBits(p)
	case "derive":
		p := get(o.R)
		if p == nil {
			return "998"
		}
		r.regs[o.To] = p.Derive()
		return proofBits(r.regs[o.To])
	case "bits":
		p := get(o.R)
		if p == nil {
			return "998"
		}
		return proofBits(p)
	case "finval":
		m := get(o.R)
		if m == nil {
			return "998"
		}
		var rest []gcrypto.CommonMessageSignatureProof
		for _, i := range o.Rest {
			if get(i) == nil {
				return "998"
			}
			rest = append(rest, get(i))
		}
		f := scheme.Finalize(m, rest)
		out, unique := scheme.ValidateFinalizedProof(f, hashesMap(o.Hashes))
		return validateObs(out, unique)
	case "validate":
		f := gcrypto.FinalizedCommonMessageSignatureProof{
			Keys:           pubs(o.F.Keys),
			PubKeyHash:     string(bs(o.F.Hash)),
			MainMessage:    bs(o.F.MainMsg),
			MainSignatures: r.ents(o.F.MainSigs),
		}
		if len(o.F.Rest) > 0 {
			f.Rest = map[string][]gcrypto.SparseSignature{}
			for _, e := range o.F.Rest {
				f.Rest[string(bs(e.Msg))] = r.ents(e.Sigs)
			}
		}
		out, unique := scheme.ValidateFinalizedProof(f, hashesMap(o.Hashes))
		return validateObs(out, unique)
	case "isvalid":
		ks := make([]int, o.NKeys)
		return b2n(scheme.KeyIDChecker(pubs(ks)).IsValid(bs(o.ID)))
	}
	return "996"
}

func main() {
	sc := bufio.NewScanner(os.Stdin)
	sc.Buffer(make([]byte, 1<<20), 1<<28)
	w := bufio.NewWriter(os.Stdout)
	defer w.Flush()
	i := 0
	for sc.Scan() {
		line := sc.Bytes()
		if len(line) == 0 {
			continue
		}
		var c Case
		if err := json.Unmarshal(line, &c); err != nil {
			fmt.Fprintf(os.Stderr, "bad case %d: %v\n", i, err)
			os.Exit(2)
		}
		r := &runner{c: &c, tokens: map[string]int{}, regs: map[int]gcrypto.CommonMessageSignatureProof{}}
		for j, s := range c.Sigs {
			b := sigBytes(&c, s)
			r.sigs = append(r.sigs, b)
			if _, ok := r.tokens[string(b)]; !ok {
				r.tokens[string(b)] = j
			}
		}
		fmt.Fprintf(w, "C %d\n", i)
		for _, o := range c.Ops {
			fmt.Fprintln(w, r.step(o))
		}
		i++
	}
}
