// Harness for C18: runs the real ByzantineMajority / ByzantineMinority on the
// values read from stdin (one decimal per line) and prints "n maj min"
// with P for a panic.
package main

import (
	"bufio"
	"fmt"
	"os"
	"strconv"

	"github.com/gordian-engine/gordian/tm/tmconsensus"
)

func call(f func(uint64) uint64, n uint64) (s string) {
	defer func() {
		if r := recover(); r != nil {
			s = "P"
		}
	}()
	return strconv.FormatUint(f(n), 10)
}

func main() {
	sc := bufio.NewScanner(os.Stdin)
	w := bufio.NewWriter(os.Stdout)
	defer w.Flush()
	for sc.Scan() {
		n, err := strconv.ParseUint(sc.Text(), 10, 64)
		if err != nil {
			continue
		}
		fmt.Fprintf(w, "%d %s %s\n", n, call(tmconsensus.ByzantineMajority, n), call(tmconsensus.ByzantineMinority, n))
	}
}
