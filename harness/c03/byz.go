package main

import (
	"bytes"
	"context"
	"encoding/binary"
	"fmt"
	"os"
	"sort"
	"sync"
	"time"

	"github.com/gordian-engine/gordian/gcrypto"
	"github.com/gordian-engine/gordian/tm/tmconsensus"
)

type hr struct {
	h uint64
	r uint32
}

type finInfo struct {
	hash  string
	round uint32
}

// roundObs is what the Byzantine validator has observed (and done) in one round.
type roundObs struct {
	phs     []tmconsensus.ProposedHeader // distinct hashes, observation order
	firstPH time.Time
	votes   [3]map[string]map[int]gcrypto.SparseSignature // by kind: hash -> signer -> sig

	proposed, prevoted, precommitted bool

	// equivocate / chaos bookkeeping
	sideA     map[int]bool
	evilA     string
	evilB     string
	evil2     string    // optional second alternative header (non-proposer rounds)
	precommit [2]string // what to precommit to side A / side B
	havePC    bool
}

type byzTimer struct {
	at time.Time
	f  func(now time.Time)
}

// byz is the engine-less Byzantine validator; its key signs whatever the scenario wants.
type byz struct {
	h   *harness
	nw  *network
	idx int
	key gcrypto.PubKey
	sg  tmconsensus.PassthroughSigner

	obs    map[hr]*roundObs
	evil   map[string]bool // hashes of headers made by byz
	timers []byzTimer

	mu       sync.Mutex
	fins     map[uint64]finInfo
	finBy    map[uint64]map[int]bool
	finFirst map[uint64]time.Time
	finFired map[uint64]bool

	onDecided func(h uint64, now time.Time) // scenario hook: some node finalized height h
}

func newByz(h *harness, nw *network, idx int) *byz {
	return &byz{
		h: h, nw: nw, idx: idx,
		key: h.fx.PrivVals[idx].Val.PubKey,
		sg: tmconsensus.PassthroughSigner{
			Signer:          h.fx.PrivVals[idx].Signer,
			SignatureScheme: h.fx.SignatureScheme,
		},
		obs:      map[hr]*roundObs{},
		evil:     map[string]bool{},
		fins:     map[uint64]finInfo{},
		finBy:    map[uint64]map[int]bool{},
		finFirst: map[uint64]time.Time{},
		finFired: map[uint64]bool{},
	}
}

func (b *byz) logf(format string, args ...any) {
	if b.h.cfg.Verbose > 0 {
		fmt.Fprintf(os.Stderr, "byz: "+format+"\n", args...)
	}
}

func (b *byz) round(h uint64, r uint32) *roundObs {
	o := b.obs[hr{h, r}]
	if o == nil {
		o = &roundObs{}
		for i := range o.votes {
			o.votes[i] = map[string]map[int]gcrypto.SparseSignature{}
		}
		b.obs[hr{h, r}] = o
	}
	return o
}

// noteFinalized is called from driver goroutines.
func (b *byz) noteFinalized(idx int, h uint64, hash []byte, round uint32) {
	b.mu.Lock()
	defer b.mu.Unlock()
	if b.finBy[h] == nil {
		b.finBy[h] = map[int]bool{}
		b.finFirst[h] = time.Now()
	}
	b.finBy[h][idx] = true
	if _, ok := b.fins[h]; !ok {
		b.fins[h] = finInfo{hash: string(hash), round: round}
	}
}

// decidedHeights returns the heights that every correct node has finalized
// (or that the first node finalized more than 300 ms ago), once each.
func (b *byz) decidedHeights(now time.Time) []uint64 {
	b.mu.Lock()
	defer b.mu.Unlock()
	var out []uint64
	for h, by := range b.finBy {
		if b.finFired[h] {
			continue
		}
		if len(by) >= len(b.h.correct) || now.Sub(b.finFirst[h]) > 300*time.Millisecond {
			b.finFired[h] = true
			out = append(out, h)
		}
	}
	sort.Slice(out, func(i, j int) bool { return out[i] < out[j] })
	return out
}

func (b *byz) fin(h uint64) (finInfo, bool) {
	b.mu.Lock()
	defer b.mu.Unlock()
	f, ok := b.fins[h]
	return f, ok
}

func (b *byz) after(now time.Time, d time.Duration, f func(now time.Time)) {
	b.timers = append(b.timers, byzTimer{at: now.Add(d), f: f})
}

func (b *byz) tick(now time.Time) {
	if len(b.timers) > 0 {
		var due []byzTimer
		keep := b.timers[:0:0]
		for _, t := range b.timers {
			if !t.at.After(now) {
				due = append(due, t)
			} else {
				keep = append(keep, t)
			}
		}
		b.timers = keep
		for _, t := range due {
			t.f(now)
		}
	}
	for _, h := range b.decidedHeights(now) {
		if b.onDecided != nil {
			b.onDecided(h, now)
		}
	}
}

// allCorrectVoted reports whether b has observed a vote of kind k from every correct node in o.
func (b *byz) allCorrectVoted(o *roundObs, k kind) bool {
	seen := map[int]bool{}
	for _, s := range o.votes[k] {
		for i := range s {
			seen[i] = true
		}
	}
	for _, i := range b.h.correct {
		if !seen[i] {
			return false
		}
	}
	return true
}

// record stores an observed message.
func (b *byz) record(m *msg, now time.Time) {
	o := b.round(m.h, m.r)
	if m.kind == kPH {
		for _, have := range o.phs {
			if bytes.Equal(have.Header.Hash, m.ph.Header.Hash) {
				return
			}
		}
		if len(o.phs) == 0 {
			o.firstPH = now
		}
		o.phs = append(o.phs, m.ph)
		return
	}
	for _, v := range m.votes {
		if v.signer < 0 {
			continue
		}
		bySigner := o.votes[m.kind][v.hash]
		if bySigner == nil {
			bySigner = map[int]gcrypto.SparseSignature{}
			o.votes[m.kind][v.hash] = bySigner
		}
		if _, ok := bySigner[v.signer]; !ok {
			bySigner[v.signer] = v.sig
		}
	}
}

func (b *byz) power(signers map[int]gcrypto.SparseSignature) uint64 {
	var p uint64
	for i := range signers {
		if i >= 0 && i < len(b.h.powers) {
			p += b.h.powers[i]
		}
	}
	return p
}

func (b *byz) maj() uint64 { return tmconsensus.ByzantineMajority(b.h.totalPower) }

func (b *byz) isProposer(h uint64, r uint32) bool { return b.h.proposer(h, r) == b.idx }

// signVote returns b's signed vote.
func (b *byz) signVote(k kind, h uint64, r uint32, hash string) sVote {
	vt := tmconsensus.VoteTarget{Height: h, Round: r, BlockHash: hash}
	var sig []byte
	var err error
	if k == kPrevote {
		_, sig, err = b.sg.Prevote(context.Background(), vt)
	} else {
		_, sig, err = b.sg.Precommit(context.Background(), vt)
	}
	if err != nil {
		panic(fmt.Errorf("byz sign: %w", err))
	}
	id := make([]byte, 2)
	binary.BigEndian.PutUint16(id, uint16(b.idx))
	return sVote{hash: hash, signer: b.idx, sig: gcrypto.SparseSignature{KeyID: id, Sig: sig}}
}

// vote sends b's vote of kind k for hash to dests (nil = everyone).
func (b *byz) vote(now time.Time, k kind, h uint64, r uint32, hash string, dests []int, direct bool) {
	m := &msg{
		kind: k, from: b.idx, h: h, r: r,
		pubKeyHash: string(b.h.valSet.PubKeyHash),
		votes:      []sVote{b.signVote(k, h, r, hash)},
		dests:      dests, direct: direct,
	}
	b.logf("%s h=%d r=%d hash=%x -> %v", k, h, r, short([]byte(hash)), dests)
	b.nw.inject(m, now)
}

func (b *byz) sendPH(now time.Time, ph tmconsensus.ProposedHeader, dests []int, direct bool) {
	m := msgFromPH(b.idx, ph)
	m.dests = dests
	m.direct = direct
	b.logf("propose h=%d r=%d hash=%x data=%q -> %v", m.h, m.r, short(ph.Header.Hash), ph.Header.DataID, dests)
	b.nw.inject(m, now)
}

// signPH finishes a header: sets data id and round, hashes and signs as b.
func (b *byz) signPH(hd tmconsensus.Header, r uint32, dataID string) (tmconsensus.ProposedHeader, error) {
	hd.DataID = []byte(dataID)
	hd.Hash = nil
	hash, err := b.h.fx.HashScheme.Block(hd)
	if err != nil {
		return tmconsensus.ProposedHeader{}, err
	}
	hd.Hash = hash
	ph := tmconsensus.ProposedHeader{Header: hd, Round: r, ProposerPubKey: b.key}
	if err := b.sg.SignProposedHeader(context.Background(), &ph); err != nil {
		return ph, err
	}
	b.evil[string(hash)] = true
	return ph, nil
}

// baseHeader returns the header fields for a proposal at height h:
// cloned from any proposal observed at that height, else built from observations of h-1.
func (b *byz) baseHeader(h uint64) (tmconsensus.Header, bool) {
	var rounds []int
	for k, o := range b.obs {
		if k.h == h && len(o.phs) > 0 {
			rounds = append(rounds, int(k.r))
		}
	}
	sort.Ints(rounds)
	for _, r := range rounds {
		for _, ph := range b.obs[hr{h, uint32(r)}].phs {
			if !b.evil[string(ph.Header.Hash)] {
				return ph.Header, true
			}
		}
	}
	for _, r := range rounds {
		return b.obs[hr{h, uint32(r)}].phs[0].Header, true
	}

	if h <= b.h.genesis.InitialHeight {
		return tmconsensus.Header{}, false
	}
	f, ok := b.fin(h - 1)
	if !ok {
		return tmconsensus.Header{}, false
	}
	o := b.obs[hr{h - 1, f.round}]
	if o == nil {
		return tmconsensus.Header{}, false
	}
	signers := o.votes[kPrecommit][f.hash]
	if b.power(signers) < b.maj() {
		return tmconsensus.Header{}, false
	}
	ids := make([]int, 0, len(signers))
	for i := range signers {
		ids = append(ids, i)
	}
	sort.Ints(ids)
	sigs := make([]gcrypto.SparseSignature, 0, len(ids))
	for _, i := range ids {
		sigs = append(sigs, signers[i])
	}
	return tmconsensus.Header{
		PrevBlockHash: []byte(f.hash),
		Height:        h,
		PrevCommitProof: tmconsensus.CommitProof{
			Round:      f.round,
			PubKeyHash: string(b.h.valSet.PubKeyHash),
			Proofs:     map[string][]gcrypto.SparseSignature{f.hash: sigs},
		},
		ValidatorSet:     b.h.valSet,
		NextValidatorSet: b.h.valSet,
		PrevAppStateHash: appStateHash(h-1, []byte(f.hash)),
	}, true
}

// proposeWhenReady retries building a proposal for (h, r) for up to ~200 ms.
func (b *byz) proposeWhenReady(now time.Time, h uint64, r uint32, tries int, send func(now time.Time, hd tmconsensus.Header)) {
	o := b.round(h, r)
	if o.proposed {
		return
	}
	hd, ok := b.baseHeader(h)
	if !ok {
		if tries > 0 {
			b.after(now, 10*time.Millisecond, func(now time.Time) { b.proposeWhenReady(now, h, r, tries-1, send) })
		} else {
			b.logf("cannot build proposal for h=%d r=%d", h, r)
		}
		return
	}
	o.proposed = true
	send(now, hd)
}

// honestPropose makes b propose like a correct proposer would.
func (b *byz) honestPropose(now time.Time, h uint64, r uint32) {
	b.proposeWhenReady(now, h, r, 20, func(now time.Time, hd tmconsensus.Header) {
		ph, err := b.signPH(hd, r, fmt.Sprintf("h=%d", h))
		if err != nil {
			b.logf("sign: %v", err)
			return
		}
		delete(b.evil, string(ph.Header.Hash)) // an honest-looking proposal
		b.sendPH(now, ph, nil, false)
	})
}

// nextRoundTrigger calls f once when b has observed that round (h, r) failed
// (nil precommit majority, or every validator's precommit present without quorum).
func (b *byz) roundFailed(h uint64, r uint32) bool {
	o := b.obs[hr{h, r}]
	if o == nil {
		return false
	}
	if b.power(o.votes[kPrecommit][""]) >= b.maj() {
		return true
	}
	seen := map[int]gcrypto.SparseSignature{}
	var top uint64
	for _, s := range o.votes[kPrecommit] {
		if p := b.power(s); p > top {
			top = p
		}
		for i, sig := range s {
			seen[i] = sig
		}
	}
	return b.power(seen) == b.h.totalPower && top < b.maj()
}

// mimic makes b behave like a correct validator for the round of m
// (prevote the expected proposer's block, precommit on a >2/3 prevote quorum,
// propose in later rounds when it is the proposer).
func (b *byz) mimic(m *msg, now time.Time) {
	o := b.round(m.h, m.r)
	if !o.prevoted {
		exp := b.h.fx.PrivVals[b.h.proposer(m.h, m.r)].Val.PubKey
		for _, ph := range o.phs {
			if ph.ProposerPubKey != nil && exp.Equal(ph.ProposerPubKey) {
				o.prevoted = true
				b.vote(now, kPrevote, m.h, m.r, string(ph.Header.Hash), nil, false)
				break
			}
		}
	}
	if !o.precommitted {
		var q string
		found := false
		for hash, s := range o.votes[kPrevote] {
			if hash != "" && b.power(s) >= b.maj() {
				q, found = hash, true
			}
		}
		if found {
			o.precommitted = true
			b.vote(now, kPrecommit, m.h, m.r, q, nil, false)
		}
	}
	if m.kind == kPrecommit && b.isProposer(m.h, m.r+1) && !b.round(m.h, m.r+1).proposed && b.roundFailed(m.h, m.r) {
		h, r := m.h, m.r+1
		b.after(now, 20*time.Millisecond, func(now time.Time) { b.honestPropose(now, h, r) })
	}
}

// ---------------------------------------------------------------------------
// Scenarios
// ---------------------------------------------------------------------------

type baseScenario struct {
	h   *harness
	nw  *network
	rng *splitmix
	b   *byz
}

func (s *baseScenario) observe(m *msg, now time.Time) {
	if s.b != nil {
		s.b.record(m, now)
	}
}
func (s *baseScenario) route(m *msg, dest int, now time.Time) []time.Duration {
	return []time.Duration{0}
}
func (s *baseScenario) linkBlocked(from, dest int, now time.Time) bool { return false }
func (s *baseScenario) voteVerdict(dest int, k kind, h uint64, r uint32, v sVote, now time.Time) verdict {
	return vPass
}
func (s *baseScenario) phVerdict(dest int, m *msg, now time.Time) (verdict, time.Time) {
	return vPass, time.Time{}
}
func (s *baseScenario) tick(now time.Time) {
	if s.b != nil {
		s.b.tick(now)
	}
}

// randomHalf splits the correct nodes into two non-empty halves.
func (s *baseScenario) randomHalf() map[int]bool {
	c := append([]int{}, s.h.correct...)
	for i := len(c) - 1; i > 0; i-- {
		j := s.rng.intn(i + 1)
		c[i], c[j] = c[j], c[i]
	}
	k := len(c) / 2
	if len(c)%2 == 1 && s.rng.chance(50) {
		k++
	}
	if k == 0 {
		k = 1
	}
	a := map[int]bool{}
	for _, i := range c[:k] {
		a[i] = true
	}
	return a
}

func (s *baseScenario) sides(a map[int]bool) (sa, sb []int) {
	for _, i := range s.h.correct {
		if a[i] {
			sa = append(sa, i)
		} else {
			sb = append(sb, i)
		}
	}
	return
}

// --- clean -----------------------------------------------------------------

type cleanScenario struct{ baseScenario }

// --- split -----------------------------------------------------------------

type splitScenario struct {
	baseScenario
	H      uint64
	V      int
	others map[int]bool
	late   int
	hold   time.Duration

	B              string
	sentPrecommits bool
	holdStart      time.Time
	nilSeen        map[int]bool
	allNilAt       time.Time
	proposed1      bool
}

func newSplitScenario(base baseScenario, H uint64, V int, hold time.Duration) *splitScenario {
	s := &splitScenario{baseScenario: base, H: H, V: V, hold: hold, others: map[int]bool{}, nilSeen: map[int]bool{}}
	for _, i := range base.h.correct {
		if i != V {
			s.others[i] = true
			s.late = i
		}
	}
	s.b.onDecided = func(h uint64, now time.Time) {
		if h+1 != s.H && s.b.isProposer(h+1, 0) {
			s.b.after(now, 10*time.Millisecond, func(now time.Time) { s.b.honestPropose(now, h+1, 0) })
		}
	}
	return s
}

func (s *splitScenario) observe(m *msg, now time.Time) {
	b := s.b
	b.record(m, now)
	if m.h != s.H || m.r >= 2 {
		b.mimic(m, now)
		return
	}
	if m.r != 0 {
		return
	}
	if s.B == "" && m.kind == kPH {
		exp := s.h.fx.PrivVals[s.h.proposer(s.H, 0)].Val.PubKey
		if exp.Equal(m.ph.ProposerPubKey) {
			s.B = string(m.ph.Header.Hash)
			fmt.Fprintf(os.Stderr, "split: honest block B=%x at h=%d r=0\n", short(m.ph.Header.Hash), s.H)
			// The filter sends B to the victim only and nil to the others only.
			b.vote(now, kPrevote, s.H, 0, s.B, nil, true)
			b.vote(now, kPrevote, s.H, 0, "", nil, true)
		}
		return
	}
	if m.kind == kPrecommit && s.B != "" {
		if !s.sentPrecommits && !m.byz {
			s.sentPrecommits = true
			b.vote(now, kPrecommit, s.H, 0, s.B, nil, true)
			b.vote(now, kPrecommit, s.H, 0, "", nil, true)
		}
		if s.allNilAt.IsZero() {
			for _, v := range m.votes {
				if v.hash == "" && s.others[v.signer] {
					s.nilSeen[v.signer] = true
				}
			}
			if len(s.nilSeen) == len(s.others) {
				s.allNilAt = now
				fmt.Fprintf(os.Stderr, "split: all other nodes precommitted nil at h=%d r=0\n", s.H)
			}
		}
	}
}

func (s *splitScenario) voteVerdict(dest int, k kind, h uint64, r uint32, v sVote, now time.Time) verdict {
	if h != s.H || r != 0 {
		return vPass
	}
	isOther := s.others[dest]
	switch {
	case v.signer == s.b.idx:
		if v.hash == "" && dest == s.V {
			return vDrop
		}
		if v.hash != "" && isOther {
			return vDrop
		}
	case v.signer == s.V && isOther:
		// Neither the victim's prevote nor its precommit for B reaches the others.
		return vDrop
	case k == kPrecommit && v.signer == s.late && v.hash == "" && dest == s.V:
		if s.holdStart.IsZero() {
			s.holdStart = now
			fmt.Fprintf(os.Stderr, "split: holding node %d's nil precommit away from victim %d for %v\n", s.late, s.V, s.hold)
		}
		if now.Before(s.holdStart.Add(s.hold)) {
			return vHold
		}
	}
	return vPass
}

func (s *splitScenario) tick(now time.Time) {
	s.b.tick(now)
	if s.proposed1 || s.B == "" {
		return
	}
	var t0 time.Time
	switch {
	case !s.holdStart.IsZero():
		t0 = s.holdStart.Add(s.hold)
	case !s.allNilAt.IsZero():
		t0 = s.allNilAt.Add(s.hold)
	default:
		return
	}
	if s.allNilAt.IsZero() || now.Before(t0.Add(150*time.Millisecond)) {
		return
	}
	s.proposed1 = true
	b := s.b
	var base tmconsensus.Header
	for _, ph := range b.round(s.H, 0).phs {
		if string(ph.Header.Hash) == s.B {
			base = ph.Header
		}
	}
	ph, err := b.signPH(base, 1, fmt.Sprintf("evil h=%d", s.H))
	if err != nil {
		fmt.Fprintln(os.Stderr, "split: cannot sign B':", err)
		return
	}
	fmt.Fprintf(os.Stderr, "split: byz proposes B'=%x at h=%d r=1\n", short(ph.Header.Hash), s.H)
	b.round(s.H, 1).proposed = true
	hash := string(ph.Header.Hash)
	b.sendPH(now, ph, nil, true)
	b.vote(now, kPrevote, s.H, 1, hash, nil, true)
	b.after(now, 50*time.Millisecond, func(now time.Time) {
		b.vote(now, kPrecommit, s.H, 1, hash, nil, true)
	})
}

// --- equivocate ------------------------------------------------------------

type equivScenario struct {
	baseScenario
	stagger time.Duration
}

func newEquivScenario(base baseScenario) *equivScenario {
	s := &equivScenario{baseScenario: base, stagger: 30 * time.Millisecond}
	s.b.onDecided = func(h uint64, now time.Time) {
		if s.b.isProposer(h+1, 0) {
			s.b.after(now, 10*time.Millisecond, func(now time.Time) { s.doublePropose(now, h+1, 0) })
		}
	}
	return s
}

// doublePropose: b is the expected proposer and sends two different blocks to two halves.
func (s *equivScenario) doublePropose(now time.Time, h uint64, r uint32) {
	b := s.b
	b.proposeWhenReady(now, h, r, 20, func(now time.Time, hd tmconsensus.Header) {
		pa, err1 := b.signPH(hd, r, fmt.Sprintf("evil-a h=%d r=%d", h, r))
		pb, err2 := b.signPH(hd, r, fmt.Sprintf("evil-b h=%d r=%d", h, r))
		if err1 != nil || err2 != nil {
			b.logf("sign: %v %v", err1, err2)
			return
		}
		o := b.round(h, r)
		o.sideA = s.randomHalf()
		o.evilA, o.evilB = string(pa.Header.Hash), string(pb.Header.Hash)
		o.firstPH = now
		sa, sb := s.sides(o.sideA)
		fmt.Fprintf(os.Stderr, "equivocate: byz is proposer of h=%d r=%d: %x -> %v, %x -> %v\n",
			h, r, short(pa.Header.Hash), sa, short(pb.Header.Hash), sb)
		b.sendPH(now, pa, sa, true)
		b.sendPH(now, pb, sb, true)
		s.armVotes(now, h, r)
	})
}

// armVotes makes b vote in (h, r): eagerly right away, or (default) lazily once it has
// seen every correct node's vote of that kind (with a 150 ms fallback).
func (s *equivScenario) armVotes(now time.Time, h uint64, r uint32) {
	if s.h.cfg.ByzEager {
		s.castPrevote(now, h, r)
		s.castPrecommit(now, h, r)
		return
	}
	s.b.after(now, 150*time.Millisecond, func(now time.Time) {
		s.castPrevote(now, h, r)
		s.b.after(now, 150*time.Millisecond, func(now time.Time) { s.castPrecommit(now, h, r) })
	})
}

func (s *equivScenario) castPrevote(now time.Time, h uint64, r uint32) {
	b := s.b
	o := b.round(h, r)
	if o.prevoted || o.sideA == nil {
		return
	}
	o.prevoted = true
	if o.evilA == o.evilB {
		b.vote(now, kPrevote, h, r, o.evilA, nil, true)
		return
	}
	sa, sb := s.sides(o.sideA)
	b.vote(now, kPrevote, h, r, o.evilA, sa, true)
	b.vote(now, kPrevote, h, r, o.evilB, sb, true)
}

func (s *equivScenario) castPrecommit(now time.Time, h uint64, r uint32) {
	b := s.b
	o := b.round(h, r)
	if o.precommitted || o.sideA == nil {
		return
	}
	o.precommitted = true
	if o.evilA == o.evilB {
		b.vote(now, kPrecommit, h, r, o.evilA, nil, true)
		return
	}
	if s.h.cfg.ByzDoublePrecommit {
		sa, sb := s.sides(o.sideA)
		b.vote(now, kPrecommit, h, r, o.evilA, sa, true)
		b.vote(now, kPrecommit, h, r, o.evilB, sb, true)
		return
	}
	// Precommit whichever of the two blocks has a prevote quorum, if any.
	for _, hash := range []string{o.evilA, o.evilB} {
		if b.power(o.votes[kPrevote][hash]) >= b.maj() {
			b.vote(now, kPrecommit, h, r, hash, nil, true)
			return
		}
	}
}

func (s *equivScenario) observe(m *msg, now time.Time) {
	b := s.b
	b.record(m, now)
	o := b.round(m.h, m.r)
	if m.kind == kPH && !o.proposed && !b.isProposer(m.h, m.r) && !b.evil[string(m.ph.Header.Hash)] {
		// First honest proposal seen for this round: make our own alternative.
		o.proposed = true
		ph, err := b.signPH(m.ph.Header, m.r, fmt.Sprintf("evil h=%d r=%d", m.h, m.r))
		if err != nil {
			b.logf("sign: %v", err)
			return
		}
		o.sideA = s.randomHalf()
		o.evilA = string(ph.Header.Hash)
		o.evilB = o.evilA
		o.firstPH = now
		sa, sb := s.sides(o.sideA)
		fmt.Fprintf(os.Stderr, "equivocate: h=%d r=%d honest %x, evil %x; honest first at %v, evil first at %v\n",
			m.h, m.r, short(m.ph.Header.Hash), short(ph.Header.Hash), sa, sb)
		var ph2 *tmconsensus.ProposedHeader
		if s.h.cfg.Evil2 {
			// A second alternative, arriving in the opposite order on the two sides.
			if p2, err := b.signPH(m.ph.Header, m.r, fmt.Sprintf("evil2 h=%d r=%d", m.h, m.r)); err == nil {
				o.evil2 = string(p2.Header.Hash)
				ph2 = &p2
			}
		}
		if ph2 != nil {
			b.sendPH(now, *ph2, nil, true)
		}
		b.sendPH(now, ph, nil, true)
		s.armVotes(now, m.h, m.r)
		return
	}
	if o.sideA != nil && m.kind != kPH {
		if !o.prevoted && b.allCorrectVoted(o, kPrevote) {
			s.castPrevote(now, m.h, m.r)
		}
		if o.prevoted && !o.precommitted && b.allCorrectVoted(o, kPrecommit) {
			s.castPrecommit(now, m.h, m.r)
		}
	}
	if m.kind == kPrecommit && b.isProposer(m.h, m.r+1) && !b.round(m.h, m.r+1).proposed && b.roundFailed(m.h, m.r) {
		h, r := m.h, m.r+1
		b.after(now, 20*time.Millisecond, func(now time.Time) { s.doublePropose(now, h, r) })
	}
}

func (s *equivScenario) phVerdict(dest int, m *msg, now time.Time) (verdict, time.Time) {
	o := s.b.obs[hr{m.h, m.r}]
	if o == nil || o.sideA == nil {
		return vPass, time.Time{}
	}
	until := o.firstPH.Add(s.stagger)
	hash := string(m.ph.Header.Hash)
	inA := o.sideA[dest]
	if inA && o.evil2 != "" && hash == o.evil2 && now.Before(o.firstPH.Add(2*s.stagger)) {
		return vHold, o.firstPH.Add(2 * s.stagger)
	}
	if !now.Before(until) {
		return vPass, time.Time{}
	}
	if s.b.isProposer(m.h, m.r) {
		// Side A gets evil-a first, side B gets evil-b first.
		if (inA && hash == o.evilB) || (!inA && hash == o.evilA) {
			return vHold, until
		}
		return vPass, time.Time{}
	}
	// Side A: honest, evil, evil2.  Side B: evil2 (or evil), then the rest.
	isEvil := s.b.evil[hash]
	if inA {
		if hash == o.evil2 && o.evil2 != "" {
			return vHold, o.firstPH.Add(2 * s.stagger)
		}
		if isEvil {
			return vHold, until
		}
		return vPass, time.Time{}
	}
	first := o.evilA
	if o.evil2 != "" {
		first = o.evil2
	}
	if hash != first {
		return vHold, until
	}
	return vPass, time.Time{}
}

// --- chaos -----------------------------------------------------------------

type chaosScenario struct {
	baseScenario
	maxDelay int
	byzMode  bool

	partSide  map[int]bool // validator -> side, nil when no partition
	partEnd   time.Time
	nextPart  time.Time
	partCount int
}

func newChaosScenario(base baseScenario, maxDelay int, byzMode bool, now time.Time) *chaosScenario {
	s := &chaosScenario{baseScenario: base, maxDelay: maxDelay, byzMode: byzMode}
	s.nextPart = now.Add(time.Duration(300+s.rng.intn(500)) * time.Millisecond)
	if s.b != nil {
		s.b.onDecided = func(h uint64, now time.Time) {
			if s.b.isProposer(h+1, 0) {
				s.b.after(now, 10*time.Millisecond, func(now time.Time) { s.b.honestPropose(now, h+1, 0) })
			}
		}
	}
	return s
}

func (s *chaosScenario) route(m *msg, dest int, now time.Time) []time.Duration {
	ms := func(n int) time.Duration { return time.Duration(n) * time.Millisecond }
	var out []time.Duration
	if s.rng.chance(10) {
		s.nw.st.add("dropped_with_retransmission", 1)
		out = append(out, ms(300+s.rng.intn(501)))
	} else {
		out = append(out, ms(s.rng.intn(s.maxDelay+1)))
	}
	if s.rng.chance(15) {
		out = append(out, ms(s.rng.intn(2*s.maxDelay+1)))
	}
	return out
}

func (s *chaosScenario) linkBlocked(from, dest int, now time.Time) bool {
	if s.partSide == nil {
		return false
	}
	return s.partSide[from] != s.partSide[dest]
}

func (s *chaosScenario) tick(now time.Time) {
	if s.b != nil {
		s.b.tick(now)
	}
	if s.partSide != nil {
		if !now.Before(s.partEnd) {
			s.partSide = nil
			s.nextPart = now.Add(time.Duration(500+s.rng.intn(1000)) * time.Millisecond)
			if s.h.cfg.Verbose > 0 {
				fmt.Fprintln(os.Stderr, "chaos: partition healed")
			}
		}
		return
	}
	if s.h.cfg.Partitions && !now.Before(s.nextPart) {
		n := s.h.cfg.N
		perm := make([]int, n)
		for i := range perm {
			perm[i] = i
		}
		for i := n - 1; i > 0; i-- {
			j := s.rng.intn(i + 1)
			perm[i], perm[j] = perm[j], perm[i]
		}
		side := map[int]bool{}
		for _, i := range perm[:n/2] {
			side[i] = true
		}
		s.partSide = side
		s.partEnd = now.Add(time.Duration(200+s.rng.intn(201)) * time.Millisecond)
		s.partCount++
		s.nw.st.add("partitions", 1)
		if s.h.cfg.Verbose > 0 {
			fmt.Fprintf(os.Stderr, "chaos: partition %v for %v\n", side, s.partEnd.Sub(now))
		}
	}
}

func (s *chaosScenario) observe(m *msg, now time.Time) {
	b := s.b
	if b == nil {
		return
	}
	b.record(m, now)
	if !s.byzMode {
		b.mimic(m, now)
		return
	}
	o := b.round(m.h, m.r)
	if !o.prevoted && len(o.phs) > 0 {
		// Equivocate: one existing block to a random half, nil or another known block to the rest.
		o.prevoted = true
		o.sideA = s.randomHalf()
		x := string(o.phs[s.rng.intn(len(o.phs))].Header.Hash)
		y := ""
		if len(o.phs) > 1 && s.rng.chance(50) {
			for _, ph := range o.phs {
				if string(ph.Header.Hash) != x {
					y = string(ph.Header.Hash)
				}
			}
		}
		o.precommit = [2]string{x, y}
		o.havePC = true
		sa, sb := s.sides(o.sideA)
		b.vote(now, kPrevote, m.h, m.r, x, sa, false)
		b.vote(now, kPrevote, m.h, m.r, y, sb, false)
	}
	if !o.precommitted && o.havePC && m.kind == kPrecommit && !m.byz {
		o.precommitted = true
		if s.h.cfg.ByzDoublePrecommit {
			// NOTE: on the unmodified engine one double precommit in a committing round makes every
			// later honest proposal fail with BadPrevCommitProofDoubleSigned (the chain halts).
			sa, sb := s.sides(o.sideA)
			b.vote(now, kPrecommit, m.h, m.r, o.precommit[0], sa, false)
			b.vote(now, kPrecommit, m.h, m.r, o.precommit[1], sb, false)
		} else {
			b.vote(now, kPrecommit, m.h, m.r, o.precommit[0], nil, false)
		}
	}
	if m.kind == kPrecommit && b.isProposer(m.h, m.r+1) && !b.round(m.h, m.r+1).proposed && b.roundFailed(m.h, m.r) {
		h, r := m.h, m.r+1
		b.after(now, 20*time.Millisecond, func(now time.Time) { b.honestPropose(now, h, r) })
	}
}
