package main

import (
	"context"
	"crypto/sha256"
	"encoding/hex"
	"fmt"
	"log/slog"
	"strings"
	"sync"
	"sync/atomic"
	"time"

	"github.com/gordian-engine/gordian/gassert/gasserttest"
	"github.com/gordian-engine/gordian/gcrypto"
	"github.com/gordian-engine/gordian/gwatchdog"
	"github.com/gordian-engine/gordian/tm/tmconsensus"
	"github.com/gordian-engine/gordian/tm/tmdriver"
	"github.com/gordian-engine/gordian/tm/tmengine"
	"github.com/gordian-engine/gordian/tm/tmgossip"
	"github.com/gordian-engine/gordian/tm/tmstore/tmmemstore"
)

// appStateHash is the deterministic application state hash after finalizing
// the block with the given hash at the given height.
func appStateHash(height uint64, blockHash []byte) []byte {
	h := sha256.Sum256([]byte(fmt.Sprintf("app|%d|%x", height, blockHash)))
	return h[:]
}

func initAppStateHash() []byte {
	h := sha256.Sum256([]byte(""))
	return h[:]
}

// nodeStores are the stores of one node; they survive a restart.
type nodeStores struct {
	action    *tmmemstore.ActionStore
	committed *tmmemstore.CommittedHeaderStore
	fin       *tmmemstore.FinalizationStore
	mirror    *tmmemstore.MirrorStore
	round     *tmmemstore.RoundStore
	sm        *tmmemstore.StateMachineStore
	val       *tmmemstore.ValidatorStore
}

// nodeRecord is everything observed about one node.
type nodeRecord struct {
	mu        sync.Mutex
	stream    [][3]any // [height, hex hash, round]
	decisions [][4]any // [h, r, kind, hex hash]
	maxFin    uint64
	finSet    map[uint64]bool
}

func (r *nodeRecord) addFin(h uint64, hash []byte, round uint32) {
	r.mu.Lock()
	defer r.mu.Unlock()
	r.stream = append(r.stream, [3]any{h, hex.EncodeToString(hash), round})
	if r.finSet == nil {
		r.finSet = map[uint64]bool{}
	}
	r.finSet[h] = true
	if h > r.maxFin {
		r.maxFin = h
	}
}

func (r *nodeRecord) addDecision(h uint64, round uint32, kind string, hash string) {
	r.mu.Lock()
	defer r.mu.Unlock()
	r.decisions = append(r.decisions, [4]any{h, round, kind, hex.EncodeToString([]byte(hash))})
}

func (r *nodeRecord) hasAll(heights uint64) bool {
	r.mu.Lock()
	defer r.mu.Unlock()
	for h := uint64(1); h <= heights; h++ {
		if !r.finSet[h] {
			return false
		}
	}
	return true
}

// node is one correct validator: stores + the current engine incarnation.
type node struct {
	idx    int
	h      *harness
	stores nodeStores
	rec    *nodeRecord

	eng atomic.Pointer[tmengine.Engine]

	// Current incarnation.
	incMu     sync.Mutex
	cancelInc context.CancelFunc
	waitInc   func()
}

func newNode(h *harness, idx int) *node {
	return &node{
		idx: idx,
		h:   h,
		rec: &nodeRecord{},
		stores: nodeStores{
			action:    tmmemstore.NewActionStore(),
			committed: tmmemstore.NewCommittedHeaderStore(),
			fin:       tmmemstore.NewFinalizationStore(),
			mirror:    tmmemstore.NewMirrorStore(),
			round:     tmmemstore.NewRoundStore(),
			sm:        tmmemstore.NewStateMachineStore(),
			val:       tmmemstore.NewValidatorStore(h.fx.HashScheme),
		},
	}
}

// broadcaster is the harness-owned tmp2p.ConsensusBroadcaster of one node incarnation.
type broadcaster struct {
	ph        chan tmconsensus.ProposedHeader
	prevote   chan tmconsensus.PrevoteSparseProof
	precommit chan tmconsensus.PrecommitSparseProof
}

func (b *broadcaster) OutgoingProposedHeaders() chan<- tmconsensus.ProposedHeader { return b.ph }
func (b *broadcaster) OutgoingPrevoteProofs() chan<- tmconsensus.PrevoteSparseProof {
	return b.prevote
}
func (b *broadcaster) OutgoingPrecommitProofs() chan<- tmconsensus.PrecommitSparseProof {
	return b.precommit
}

// pump forwards everything the gossip strategy emits to the network scheduler.
func (b *broadcaster) pump(ctx context.Context, from int, nw *network, done chan<- struct{}) {
	defer close(done)
	for {
		var m *msg
		select {
		case <-ctx.Done():
			return
		case ph := <-b.ph:
			m = msgFromPH(from, ph)
		case p := <-b.prevote:
			m = msgFromVotes(from, kPrevote, p.Height, p.Round, p.PubKeyHash, p.Proofs)
		case p := <-b.precommit:
			m = msgFromVotes(from, kPrecommit, p.Height, p.Round, p.PubKeyHash, p.Proofs)
		}
		select {
		case nw.in <- m:
		case <-ctx.Done():
			return
		}
	}
}

// start builds a new engine incarnation on the node's stores.
func (n *node) start(root context.Context) error {
	h := n.h
	ctx, cancel := context.WithCancel(root)
	log := h.log.With("idx", n.idx)

	wd, wCtx := gwatchdog.NewWatchdog(ctx, log.With("sys", "watchdog"))

	bc := &broadcaster{
		ph:        make(chan tmconsensus.ProposedHeader, 16),
		prevote:   make(chan tmconsensus.PrevoteSparseProof, 16),
		precommit: make(chan tmconsensus.PrecommitSparseProof, 16),
	}
	pumpDone := make(chan struct{})
	go bc.pump(wCtx, n.idx, h.net, pumpDone)

	gs := tmgossip.NewChattyStrategy(wCtx, log.With("sys", "chatty"), bc)

	cs := &lockStrategy{
		idx:    n.idx,
		n:      h.cfg.N,
		pubKey: h.fx.PrivVals[n.idx].Val.PubKey,
		rec:    n.rec,
		locked: -1,
	}

	finCh := make(chan tmdriver.FinalizeBlockRequest)
	initCh := make(chan tmdriver.InitChainRequest)
	drvDone := make(chan struct{})
	go n.driver(wCtx, initCh, finCh, drvDone)

	genesis := h.genesis
	ts := h.cfg.Timeouts
	e, err := tmengine.New(
		wCtx,
		log.With("sys", "engine"),

		tmengine.WithActionStore(n.stores.action),
		tmengine.WithCommittedHeaderStore(n.stores.committed),
		tmengine.WithFinalizationStore(n.stores.fin),
		tmengine.WithMirrorStore(n.stores.mirror),
		tmengine.WithRoundStore(n.stores.round),
		tmengine.WithStateMachineStore(n.stores.sm),
		tmengine.WithValidatorStore(n.stores.val),

		tmengine.WithHashScheme(h.fx.HashScheme),
		tmengine.WithSignatureScheme(h.fx.SignatureScheme),
		tmengine.WithCommonMessageSignatureProofScheme(h.fx.CommonMessageSignatureProofScheme),

		tmengine.WithGossipStrategy(gs),
		tmengine.WithConsensusStrategy(cs),

		tmengine.WithGenesis(&tmconsensus.ExternalGenesis{
			ChainID:             genesis.ChainID,
			InitialHeight:       genesis.InitialHeight,
			InitialAppState:     strings.NewReader(""),
			GenesisValidatorSet: h.valSet,
		}),

		tmengine.WithTimeoutStrategy(wCtx, tmengine.LinearTimeoutStrategy{
			ProposalBase:            ts.Proposal,
			ProposalIncrement:       ts.ProposalInc,
			PrevoteDelayBase:        ts.PrevoteDelay,
			PrevoteDelayIncrement:   ts.PrevoteDelayInc,
			PrecommitDelayBase:      ts.PrecommitDelay,
			PrecommitDelayIncrement: ts.PrecommitDelayInc,
			CommitWaitBase:          ts.CommitWait,
			CommitWaitIncrement:     ts.CommitWaitInc,
		}),

		tmengine.WithBlockFinalizationChannel(finCh),
		tmengine.WithInitChainChannel(initCh),

		tmengine.WithSigner(tmconsensus.PassthroughSigner{
			Signer:          h.fx.PrivVals[n.idx].Signer,
			SignatureScheme: h.fx.SignatureScheme,
		}),

		tmengine.WithWatchdog(wd),
		tmengine.WithAssertEnv(gasserttest.DefaultEnv()),
	)
	if err != nil {
		cancel()
		return fmt.Errorf("node %d: tmengine.New: %w", n.idx, err)
	}

	n.incMu.Lock()
	n.cancelInc = cancel
	n.waitInc = func() {
		e.Wait()
		wd.Wait()
		<-pumpDone
		<-drvDone
	}
	n.incMu.Unlock()

	n.eng.Store(e)
	return nil
}

// stop cancels the current incarnation and waits (bounded) for it to finish.
func (n *node) stop(bound time.Duration) bool {
	n.eng.Store(nil)
	n.incMu.Lock()
	cancel, wait := n.cancelInc, n.waitInc
	n.cancelInc, n.waitInc = nil, nil
	n.incMu.Unlock()
	if cancel == nil {
		return true
	}
	cancel()
	done := make(chan struct{})
	go func() {
		wait()
		close(done)
	}()
	select {
	case <-done:
		return true
	case <-time.After(bound):
		return false
	}
}

// driver answers the init-chain request and every finalize-block request.
func (n *node) driver(
	ctx context.Context,
	initCh <-chan tmdriver.InitChainRequest,
	finCh <-chan tmdriver.FinalizeBlockRequest,
	done chan<- struct{},
) {
	defer close(done)

	vals := n.h.valSet.Validators

	select {
	case <-ctx.Done():
		return
	case req, ok := <-initCh:
		if ok {
			select {
			case req.Resp <- tmdriver.InitChainResponse{AppStateHash: initAppStateHash()}:
			case <-ctx.Done():
				return
			}
		}
		// Closed channel: chain already initialized (restart).
	}

	for {
		select {
		case <-ctx.Done():
			return
		case req := <-finCh:
			n.rec.addFin(req.Header.Height, req.Header.Hash, req.Round)
			n.h.onFinalize(n.idx, req.Header, req.Round)
			n.h.barrier(ctx, n.idx, req.Header.Height)
			// Resp is 1-buffered.
			req.Resp <- tmdriver.FinalizeBlockResponse{
				Height:       req.Header.Height,
				Round:        req.Round,
				BlockHash:    req.Header.Hash,
				Validators:   vals,
				AppStateHash: appStateHash(req.Header.Height, req.Header.Hash),
			}
		}
	}
}

// lockStrategy is the lock-respecting consensus strategy.
type lockStrategy struct {
	idx    int
	n      int
	pubKey gcrypto.PubKey
	rec    *nodeRecord

	mu         sync.Mutex
	h          uint64
	r          uint32
	expKey     gcrypto.PubKey
	lockedHash string
	locked     int64 // locked round, -1 when not locked
}

func (s *lockStrategy) EnterRound(ctx context.Context, rv tmconsensus.RoundView, proposalOut chan<- tmconsensus.Proposal) error {
	s.mu.Lock()
	defer s.mu.Unlock()

	if rv.Height != s.h {
		s.lockedHash = ""
		s.locked = -1
	}
	s.h, s.r = rv.Height, rv.Round

	vals := rv.ValidatorSet.Validators
	pi := int((rv.Height + uint64(rv.Round)) % uint64(len(vals)))
	s.expKey = vals[pi].PubKey

	if s.expKey.Equal(s.pubKey) {
		select {
		case proposalOut <- tmconsensus.Proposal{DataID: fmt.Sprintf("h=%d", rv.Height)}:
			s.rec.addDecision(rv.Height, rv.Round, "propose", "")
		default:
			s.rec.addDecision(rv.Height, rv.Round, "propose-blocked", "")
		}
	}
	return nil
}

func (s *lockStrategy) consider(phs []tmconsensus.ProposedHeader) (string, bool) {
	if s.locked >= 0 {
		return s.lockedHash, true
	}
	for _, ph := range phs {
		if ph.Header.Height != s.h || ph.Round != s.r {
			continue
		}
		if ph.ProposerPubKey != nil && s.expKey != nil && s.expKey.Equal(ph.ProposerPubKey) {
			return string(ph.Header.Hash), true
		}
	}
	return "", false
}

func (s *lockStrategy) ConsiderProposedBlocks(
	ctx context.Context,
	phs []tmconsensus.ProposedHeader,
	_ tmconsensus.ConsiderProposedBlocksReason,
) (string, error) {
	s.mu.Lock()
	defer s.mu.Unlock()
	hash, ok := s.consider(phs)
	if !ok {
		return "", tmconsensus.ErrProposedBlockChoiceNotReady
	}
	s.rec.addDecision(s.h, s.r, "prevote", hash)
	return hash, nil
}

func (s *lockStrategy) ChooseProposedBlock(ctx context.Context, phs []tmconsensus.ProposedHeader) (string, error) {
	s.mu.Lock()
	defer s.mu.Unlock()
	hash, _ := s.consider(phs)
	s.rec.addDecision(s.h, s.r, "prevote", hash)
	return hash, nil
}

func (s *lockStrategy) DecidePrecommit(ctx context.Context, vs tmconsensus.VoteSummary) (string, error) {
	s.mu.Lock()
	defer s.mu.Unlock()
	maj := tmconsensus.ByzantineMajority(vs.AvailablePower)
	top := vs.MostVotedPrevoteHash
	if top != "" && vs.PrevoteBlockPower[top] >= maj {
		s.lockedHash = top
		s.locked = int64(s.r)
		s.rec.addDecision(s.h, s.r, "precommit", top)
		return top, nil
	}
	s.rec.addDecision(s.h, s.r, "precommit", "")
	return "", nil
}

func discardLogger() *slog.Logger {
	return slog.New(slog.NewTextHandler(discardWriter{}, &slog.HandlerOptions{Level: slog.Level(100)}))
}

type discardWriter struct{}

func (discardWriter) Write(p []byte) (int, error) { return len(p), nil }
