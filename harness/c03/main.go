// Harness for C03: runs N real gordian consensus engines in one process on an
// in-memory network owned by the harness (seeded delays, duplication, reordering,
// partitions, vote-level filtering and an engine-less Byzantine validator) and
// prints every correct node's finalized-block stream as one JSON object.
//
// Judging the streams is not the harness's job: it exits 0 whenever it could
// produce the JSON object, and 2 only for usage/setup errors.
package main

import (
	"bytes"
	"context"
	"encoding/hex"
	"encoding/json"
	"errors"
	"flag"
	"fmt"
	"io"
	"log/slog"
	"os"
	"os/exec"
	"strconv"
	"strings"
	"sync"
	"time"

	"github.com/gordian-engine/gordian/tm/tmconsensus"
	"github.com/gordian-engine/gordian/tm/tmconsensus/tmconsensustest"
)

type timeouts struct {
	Proposal, ProposalInc             time.Duration
	PrevoteDelay, PrevoteDelayInc     time.Duration
	PrecommitDelay, PrecommitDelayInc time.Duration
	CommitWait, CommitWaitInc         time.Duration
}

type config struct {
	Scenario                     string
	N                            int
	Heights                      uint64
	Seed                         uint64
	Timeout                      time.Duration
	Powers                       []uint64
	Byz                          int // -1 = none
	ByzMode                      bool
	Hold                         time.Duration
	Target                       uint64
	Victim                       int
	MaxDelay                     int
	Partitions                   bool
	Guard                        bool
	Verbose                      int
	Partial                      string
	RestartIdx                   int
	RestartAt                    time.Duration
	Retries                      int
	Barrier                      time.Duration // max time a driver withholds its finalize response waiting for the other nodes
	ByzEager, ByzDoublePrecommit bool
	Evil2                        bool
	BarrierAll                   bool // barrier at every height (default: only the split target height)
	Timeouts                     timeouts
}

type harness struct {
	cfg config
	log *slog.Logger
	fx  *tmconsensustest.Fixture

	genesis    tmconsensus.Genesis
	valSet     tmconsensus.ValidatorSet
	powers     []uint64
	totalPower uint64

	correct []int
	nodes   map[int]*node
	net     *network
	byz     *byz

	start time.Time

	mu       sync.Mutex
	restarts []map[string]any
	timedOut bool

	barMu      sync.Mutex
	barSeen    map[uint64]map[int]bool
	barCh      map[uint64]chan struct{}
	partialNow chan struct{}
}

func (h *harness) proposer(height uint64, round uint32) int {
	return int((height + uint64(round)) % uint64(h.cfg.N))
}

// onFinalize is called from driver goroutines for every FinalizeBlockRequest.
func (h *harness) onFinalize(idx int, hd tmconsensus.Header, round uint32) {
	if h.cfg.Verbose > 0 {
		fmt.Fprintf(os.Stderr, "node %d finalize h=%d r=%d hash=%x data=%q (+%dms)\n",
			idx, hd.Height, round, short(hd.Hash), hd.DataID, time.Since(h.start).Milliseconds())
	}
	if h.byz != nil {
		h.byz.noteFinalized(idx, hd.Height, hd.Hash, round)
	}
	select {
	case h.partialNow <- struct{}{}:
	default:
	}
}

// barrier makes the driver of node idx withhold its finalize response for the
// given height until every correct node has received a finalize request for
// that height (or the cap elapses). An application may take arbitrarily long to
// finalize, so this is legitimate; it keeps a node that decided early (and may
// be about to crash on an internal inconsistency) from ending the run before
// the other nodes decide.
func (h *harness) barrier(ctx context.Context, idx int, height uint64) {
	if h.cfg.Barrier <= 0 || !(h.cfg.BarrierAll || (h.cfg.Scenario == "split" && height == h.cfg.Target)) {
		return
	}
	h.barMu.Lock()
	if h.barSeen == nil {
		h.barSeen = map[uint64]map[int]bool{}
		h.barCh = map[uint64]chan struct{}{}
	}
	if h.barSeen[height] == nil {
		h.barSeen[height] = map[int]bool{}
		h.barCh[height] = make(chan struct{})
	}
	ch := h.barCh[height]
	if !h.barSeen[height][idx] {
		h.barSeen[height][idx] = true
		if len(h.barSeen[height]) == len(h.correct) {
			close(ch)
		}
	}
	h.barMu.Unlock()
	select {
	case <-ch:
	case <-ctx.Done():
	case <-time.After(h.cfg.Barrier):
		fmt.Fprintf(os.Stderr, "h_c03: node %d: finalize barrier for height %d timed out\n", idx, height)
	}
}

// usageExit is the exit code for usage/setup errors: 2, but 3 in the supervised
// child (mapped back to 2 by the parent) because Go panics also exit with 2.
var usageExit = 2

func usageErr(format string, args ...any) {
	fmt.Fprintf(os.Stderr, "h_c03: "+format+"\n", args...)
	os.Exit(usageExit)
}

func parseFlags(args []string) (config, bool, bool) {
	fs := flag.NewFlagSet("h_c03", flag.ContinueOnError)
	var c config
	var powers, restart string
	var seed, heights, target uint64
	var barrierMs int
	var holdMs, propMs, propIncMs, pvMs, pvIncMs, pcMs, pcIncMs, cwMs int
	var child, nofork, noguard, nopart bool
	fs.StringVar(&c.Scenario, "scenario", "clean", "clean | chaos | equivocate | split")
	fs.IntVar(&c.N, "n", 4, "number of validators")
	fs.Uint64Var(&heights, "heights", 4, "heights every correct node must finalize")
	fs.Uint64Var(&seed, "seed", 1, "PRNG seed (SplitMix64)")
	fs.DurationVar(&c.Timeout, "timeout", 40*time.Second, "overall run timeout")
	fs.StringVar(&powers, "powers", "", "comma separated voting powers, e.g. 1,1,1,1 (default: all 1)")
	fs.IntVar(&c.Byz, "byz", -2, "index of the Byzantine validator (-1 none; default: last index when the scenario needs one)")
	fs.BoolVar(&c.ByzMode, "byzmode", false, "chaos: add a randomly equivocating Byzantine validator")
	fs.IntVar(&holdMs, "hold", 400, "split: ms the late nil precommit is withheld from the victim")
	fs.Uint64Var(&target, "target", 0, "split: target height H* (default: smallest h>=2 whose round-1 proposer is byz)")
	fs.IntVar(&c.Victim, "victim", 0, "split: victim validator index")
	fs.IntVar(&c.MaxDelay, "maxdelay", 60, "chaos: max random link delay in ms")
	fs.BoolVar(&nopart, "nopartitions", false, "chaos: disable random partitions")
	fs.BoolVar(&noguard, "noguard", false, "disable the delivery guard that keeps messages away from known-unimplemented (panicking) engine paths")
	fs.IntVar(&barrierMs, "barrier", -1, "ms a driver withholds its finalize response until all correct nodes got a finalize request for that height (default 3000 at the split target height, else 0)")
	fs.BoolVar(&c.BarrierAll, "barrier-all", false, "apply -barrier at every height")
	fs.BoolVar(&c.ByzEager, "byz-eager", false, "equivocate: byz votes for its block immediately instead of after the correct nodes voted")
	fs.BoolVar(&c.ByzDoublePrecommit, "byz-double-precommit", false, "equivocate (as double proposer) and chaos -byzmode: byz also equivocates its precommits (different halves get different votes); halts the unmodified engine")
	fs.BoolVar(&c.Evil2, "evil2", true, "equivocate: byz sends a second alternative header, in opposite arrival order on the two halves")
	fs.IntVar(&c.Retries, "retries", 0, "rerun (same seed) up to this many times when the engine crashes the process; every crash is listed in the output field \"crashes\"")
	fs.StringVar(&restart, "restart", "", "k@ms: restart node k after ms milliseconds (clean/chaos)")
	fs.StringVar(&c.Partial, "partial", "", "file that periodically receives a partial JSON result")
	fs.IntVar(&propMs, "proposal-ms", -1, "proposal timeout base")
	fs.IntVar(&propIncMs, "proposal-inc-ms", -1, "proposal timeout increment per round")
	fs.IntVar(&pvMs, "prevote-delay-ms", -1, "prevote delay base")
	fs.IntVar(&pvIncMs, "prevote-delay-inc-ms", -1, "prevote delay increment")
	fs.IntVar(&pcMs, "precommit-delay-ms", -1, "precommit delay base")
	fs.IntVar(&pcIncMs, "precommit-delay-inc-ms", -1, "precommit delay increment")
	fs.IntVar(&cwMs, "commit-wait-ms", -1, "commit wait base")
	v1 := fs.Bool("v", false, "log harness events to stderr")
	v2 := fs.Bool("vv", false, "also log every delivery and the engine logs to stderr")
	fs.BoolVar(&child, "child", false, "internal: run in-process (no supervising parent)")
	fs.BoolVar(&nofork, "nofork", false, "same as -child")
	if err := fs.Parse(args); err != nil {
		os.Exit(2)
	}
	if fs.NArg() > 0 {
		usageErr("unexpected arguments: %v", fs.Args())
	}
	c.Heights, c.Seed, c.Target = heights, seed, target
	c.Hold = time.Duration(holdMs) * time.Millisecond
	c.Guard = !noguard
	switch {
	case barrierMs >= 0:
		c.Barrier = time.Duration(barrierMs) * time.Millisecond
	case c.Scenario == "split":
		c.Barrier = 3 * time.Second
	}
	c.Partitions = !nopart
	if *v1 {
		c.Verbose = 1
	}
	if *v2 {
		c.Verbose = 2
	}

	switch c.Scenario {
	case "clean", "chaos", "equivocate", "split":
	default:
		usageErr("unknown scenario %q", c.Scenario)
	}
	if c.N < 1 || c.N > 64 {
		usageErr("bad -n %d", c.N)
	}
	if c.Heights < 1 {
		usageErr("bad -heights")
	}

	needByz := c.Scenario == "equivocate" || c.Scenario == "split" || (c.Scenario == "chaos" && c.ByzMode)
	switch {
	case c.Byz == -2 && needByz:
		c.Byz = c.N - 1
	case c.Byz == -2:
		c.Byz = -1
	case c.Byz >= c.N || c.Byz < -1:
		usageErr("bad -byz %d", c.Byz)
	case c.Byz == -1 && needByz:
		usageErr("scenario %s needs a Byzantine validator", c.Scenario)
	}
	if needByz && c.N < 4 {
		usageErr("scenario %s needs -n >= 4", c.Scenario)
	}

	c.Powers = make([]uint64, c.N)
	for i := range c.Powers {
		c.Powers[i] = 1
	}
	if powers != "" {
		parts := strings.Split(powers, ",")
		if len(parts) != c.N {
			usageErr("-powers needs %d entries", c.N)
		}
		for i, p := range parts {
			u, err := strconv.ParseUint(strings.TrimSpace(p), 10, 64)
			if err != nil || u == 0 {
				usageErr("bad power %q", p)
			}
			c.Powers[i] = u
		}
	}

	c.RestartIdx = -1
	if restart != "" {
		k, ms, ok := strings.Cut(restart, "@")
		ki, err1 := strconv.Atoi(k)
		mi, err2 := strconv.Atoi(ms)
		if !ok || err1 != nil || err2 != nil || ki < 0 || ki >= c.N || ki == c.Byz {
			usageErr("bad -restart %q", restart)
		}
		c.RestartIdx, c.RestartAt = ki, time.Duration(mi)*time.Millisecond
	}

	// Timeouts: those of the integration test unless the scenario needs otherwise.
	ms := func(n int) time.Duration { return time.Duration(n) * time.Millisecond }
	t := timeouts{
		Proposal: ms(250), ProposalInc: ms(500),
		PrevoteDelay: ms(100), PrevoteDelayInc: ms(500),
		PrecommitDelay: ms(100), PrecommitDelayInc: ms(500),
		CommitWait: ms(15), CommitWaitInc: ms(500),
	}
	if c.Scenario == "chaos" {
		// Link delays of up to 800 ms must not by themselves cause round changes.
		t.Proposal, t.PrevoteDelay, t.PrecommitDelay = ms(2500), ms(1200), ms(1200)
	}
	set := func(dst *time.Duration, v int) {
		if v >= 0 {
			*dst = ms(v)
		}
	}
	set(&t.Proposal, propMs)
	set(&t.ProposalInc, propIncMs)
	set(&t.PrevoteDelay, pvMs)
	set(&t.PrevoteDelayInc, pvIncMs)
	set(&t.PrecommitDelay, pcMs)
	set(&t.PrecommitDelayInc, pcIncMs)
	set(&t.CommitWait, cwMs)
	c.Timeouts = t

	return c, child || nofork, *v1 || *v2
}

func main() {
	for _, a := range os.Args[1:] {
		if a == "-child" || a == "--child" {
			usageExit = 3
		}
	}
	cfg, inProcess, verbose := parseFlags(os.Args[1:])
	if inProcess {
		os.Exit(runChild(cfg))
	}
	os.Exit(runParent(cfg, verbose))
}

// runParent supervises a child process so that an unrecoverable engine panic
// (which kills the whole process) does not lose the observations so far.
func runParent(cfg config, verbose bool) int {
	partial := cfg.Partial
	if partial == "" {
		f, err := os.CreateTemp("", "h_c03_partial_*.json")
		if err != nil {
			fmt.Fprintln(os.Stderr, "h_c03:", err)
			return 2
		}
		partial = f.Name()
		f.Close()
		defer os.Remove(partial)
	}
	args := append([]string{}, os.Args[1:]...)
	args = append(args, "-child", "-partial", partial)

	var crashes []string
	for attempt := 1; ; attempt++ {
		_ = os.Remove(partial)
		ctx, cancel := context.WithTimeout(context.Background(), cfg.Timeout+15*time.Second)
		cmd := exec.CommandContext(ctx, os.Args[0], args...)
		var stdout, stderr bytes.Buffer
		cmd.Stdout = &stdout
		cmd.Stderr = io.MultiWriter(&stderr, os.Stderr)
		err := cmd.Run()
		cancel()

		out := map[string]any{}
		if stdout.Len() > 0 && json.Unmarshal(stdout.Bytes(), &out) == nil && len(out) > 0 {
			// A complete result was printed (a panic during engine shutdown does not matter).
			if len(crashes) == 0 {
				os.Stdout.Write(stdout.Bytes())
				return 0
			}
		} else {
			var ee *exec.ExitError
			if errors.As(err, &ee) && ee.ExitCode() == 3 {
				return 2
			}
			// The child died: fall back to the last partial result.
			out = map[string]any{}
			if data, rerr := os.ReadFile(partial); rerr == nil {
				_ = json.Unmarshal(data, &out)
			}
			crash := crashExcerpt(stderr.String(), fmt.Sprint(err))
			crashes = append(crashes, crash)
			if attempt <= cfg.Retries {
				fmt.Fprintf(os.Stderr, "h_c03: attempt %d crashed, retrying\n", attempt)
				continue
			}
			if len(out) == 0 {
				fmt.Fprintln(os.Stderr, "h_c03: child failed before producing any result:", err)
				return 2
			}
			out["crashed"] = true
			out["partial"] = true
			out["crash"] = crash
		}
		out["attempts"] = attempt
		out["crashes"] = crashes
		enc, _ := json.Marshal(out)
		os.Stdout.Write(append(enc, '\n'))
		return 0
	}
}

func crashExcerpt(stderr, errStr string) string {
	lines := strings.Split(stderr, "\n")
	for i, l := range lines {
		if strings.HasPrefix(l, "panic:") || strings.HasPrefix(l, "fatal error:") {
			end := i + 12
			if end > len(lines) {
				end = len(lines)
			}
			return strings.Join(lines[i:end], "\n")
		}
	}
	if len(lines) > 8 {
		lines = lines[len(lines)-8:]
	}
	return errStr + ": " + strings.Join(lines, "\n")
}

func runChild(cfg config) int {
	h := &harness{cfg: cfg, start: time.Now(), nodes: map[int]*node{}, partialNow: make(chan struct{}, 1)}
	if cfg.Verbose > 1 {
		h.log = slog.New(slog.NewTextHandler(os.Stderr, &slog.HandlerOptions{Level: slog.LevelInfo}))
	} else {
		h.log = discardLogger()
	}

	h.fx = tmconsensustest.NewEd25519Fixture(cfg.N)
	for i := range h.fx.PrivVals {
		h.fx.PrivVals[i].Val.Power = cfg.Powers[i]
	}
	h.genesis = h.fx.DefaultGenesis()
	h.valSet = h.fx.ValSet()
	h.powers = cfg.Powers
	for _, p := range cfg.Powers {
		h.totalPower += p
	}
	for i := 0; i < cfg.N; i++ {
		if i != cfg.Byz {
			h.correct = append(h.correct, i)
		}
	}
	if cfg.Byz >= 0 && 3*cfg.Powers[cfg.Byz] >= h.totalPower {
		fmt.Fprintf(os.Stderr, "h_c03: warning: Byzantine power %d is not below 1/3 of %d\n", cfg.Powers[cfg.Byz], h.totalPower)
	}

	root, cancel := context.WithCancel(context.Background())
	defer cancel()

	h.net = newNetwork(h)
	rng := &splitmix{s: cfg.Seed}
	base := baseScenario{h: h, nw: h.net, rng: rng}
	if cfg.Byz >= 0 {
		h.byz = newByz(h, h.net, cfg.Byz)
		base.b = h.byz
	}
	switch cfg.Scenario {
	case "clean":
		if h.byz != nil {
			// A designated but well-behaved engine-less validator.
			s := &chaosScenario{baseScenario: base}
			h.cfg.Partitions = false
			h.byz.onDecided = func(ht uint64, now time.Time) {
				if h.byz.isProposer(ht+1, 0) {
					h.byz.after(now, 10*time.Millisecond, func(now time.Time) { h.byz.honestPropose(now, ht+1, 0) })
				}
			}
			h.net.pol = &cleanWithByz{chaosScenario: s}
		} else {
			h.net.pol = &cleanScenario{baseScenario: base}
		}
	case "chaos":
		h.net.pol = newChaosScenario(base, cfg.MaxDelay, cfg.ByzMode, time.Now())
	case "equivocate":
		h.net.pol = newEquivScenario(base)
	case "split":
		H := cfg.Target
		if H == 0 {
			for H = 2; h.proposer(H, 1) != cfg.Byz; H++ {
			}
		}
		if cfg.Victim == cfg.Byz || cfg.Victim < 0 || cfg.Victim >= cfg.N {
			usageErr("bad -victim")
		}
		if h.proposer(H, 1) != cfg.Byz {
			fmt.Fprintf(os.Stderr, "h_c03: warning: byz %d is not the round-1 proposer of height %d\n", cfg.Byz, H)
		}
		h.cfg.Target = H
		h.net.pol = newSplitScenario(base, H, cfg.Victim, cfg.Hold)
	}

	go h.net.run(root)

	for _, i := range h.correct {
		h.nodes[i] = newNode(h, i)
	}
	// tmengine.New blocks on the init-chain exchange only, so start sequentially.
	for _, i := range h.correct {
		if err := h.nodes[i].start(root); err != nil {
			fmt.Fprintln(os.Stderr, "h_c03:", err)
			return usageExit
		}
	}
	for _, i := range h.correct {
		go h.net.deliverLoop(root, i)
	}

	stopPartial := make(chan struct{})
	var partialWG sync.WaitGroup
	if cfg.Partial != "" {
		partialWG.Add(1)
		go func() {
			defer partialWG.Done()
			tk := time.NewTicker(100 * time.Millisecond)
			defer tk.Stop()
			for {
				select {
				case <-stopPartial:
					return
				case <-tk.C:
					h.writePartial()
				case <-h.partialNow:
					h.writePartial()
				}
			}
		}()
	}

	if cfg.RestartIdx >= 0 {
		go h.restartNode(root, cfg.RestartIdx, cfg.RestartAt)
	}

	// Wait for completion.
	deadline := time.After(cfg.Timeout)
	poll := time.NewTicker(10 * time.Millisecond)
	defer poll.Stop()
WAIT:
	for {
		select {
		case <-deadline:
			h.mu.Lock()
			h.timedOut = true
			h.mu.Unlock()
			break WAIT
		case <-poll.C:
			done := true
			for _, i := range h.correct {
				if !h.nodes[i].rec.hasAll(cfg.Heights) {
					done = false
					break
				}
			}
			if done {
				time.Sleep(150 * time.Millisecond) // let stores and late finalizations settle
				break WAIT
			}
		}
	}

	close(stopPartial)
	partialWG.Wait()

	out := h.result(true)
	enc, err := json.Marshal(out)
	if err != nil {
		fmt.Fprintln(os.Stderr, "h_c03: marshal:", err)
		return usageExit
	}
	// Print before shutting down: the engine has shutdown races that can panic
	// (and kill the process) after cancellation.
	os.Stdout.Write(append(enc, '\n'))
	os.Stdout.Sync()

	cancel()
	shut := make(chan struct{})
	go func() {
		var wg sync.WaitGroup
		for _, i := range h.correct {
			wg.Add(1)
			go func(n *node) {
				defer wg.Done()
				n.stop(3 * time.Second)
			}(h.nodes[i])
		}
		wg.Wait()
		close(shut)
	}()
	select {
	case <-shut:
	case <-time.After(3 * time.Second):
		fmt.Fprintln(os.Stderr, "h_c03: engines did not stop within 3s")
	}
	return 0
}

// cleanWithByz is "clean" with an engine-less validator that behaves correctly.
type cleanWithByz struct{ *chaosScenario }

func (s *cleanWithByz) route(m *msg, dest int, now time.Time) []time.Duration {
	return []time.Duration{0}
}

func (h *harness) restartNode(ctx context.Context, k int, at time.Duration) {
	select {
	case <-ctx.Done():
		return
	case <-time.After(at):
	}
	n := h.nodes[k]
	t0 := time.Now()
	n.rec.mu.Lock()
	streamLen := len(n.rec.stream)
	n.rec.mu.Unlock()
	clean := n.stop(3 * time.Second)
	entry := map[string]any{
		"node": k, "at_ms": time.Since(h.start).Milliseconds(),
		"stream_len_before": streamLen, "stopped_cleanly": clean,
	}
	if ctx.Err() != nil {
		return
	}
	err := n.start(ctx)
	entry["restart_ms"] = time.Since(t0).Milliseconds()
	if err != nil {
		entry["error"] = err.Error()
	}
	h.mu.Lock()
	h.restarts = append(h.restarts, entry)
	h.mu.Unlock()
	fmt.Fprintf(os.Stderr, "h_c03: restarted node %d: %v\n", k, entry)
}

// result builds the output object.
func (h *harness) result(withStores bool) map[string]any {
	cfg := h.cfg
	key := func(i int) string { return strconv.Itoa(i) }

	streams := map[string]any{}
	decisions := map[string]any{}
	stores := map[string]any{}
	for _, i := range h.correct {
		n := h.nodes[i]
		if n == nil {
			continue
		}
		n.rec.mu.Lock()
		streams[key(i)] = append([][3]any{}, n.rec.stream...)
		decisions[key(i)] = append([][4]any{}, n.rec.decisions...)
		n.rec.mu.Unlock()

		st := [][4]any{}
		if withStores {
			for ht := uint64(1); ; ht++ {
				ch, err := n.stores.committed.LoadCommittedHeader(context.Background(), ht)
				if err != nil {
					break
				}
				// the stored commit certificate: round and the signer indices recorded for this header's hash
				signers := []int{}
				for _, sg := range ch.Proof.Proofs[string(ch.Header.Hash)] {
					if len(sg.KeyID) == 2 {
						signers = append(signers, int(sg.KeyID[0])<<8|int(sg.KeyID[1]))
					}
				}
				st = append(st, [4]any{ht, hex.EncodeToString(ch.Header.Hash), ch.Proof.Round, signers})
			}
		}
		stores[key(i)] = st
	}

	byzList := []int{}
	if cfg.Byz >= 0 {
		byzList = append(byzList, cfg.Byz)
	}
	h.mu.Lock()
	restarts := append([]map[string]any{}, h.restarts...)
	timedOut := h.timedOut
	h.mu.Unlock()

	out := map[string]any{
		"scenario":  cfg.Scenario,
		"n":         cfg.N,
		"powers":    cfg.Powers,
		"byz":       byzList,
		"correct":   h.correct,
		"seed":      cfg.Seed,
		"heights":   cfg.Heights,
		"streams":   streams,
		"stores":    stores,
		"decisions": decisions,
		"stats":     h.net.st.snapshot(),
		"panics":    h.net.panicList(),
		"restarts":  restarts,
		"timed_out": timedOut,
		"wall_ms":   time.Since(h.start).Milliseconds(),
		"guard":     cfg.Guard,
	}
	if cfg.Scenario == "split" {
		out["split"] = map[string]any{"target_height": cfg.Target, "victim": cfg.Victim, "hold_ms": cfg.Hold.Milliseconds()}
	}
	return out
}

func (h *harness) writePartial() {
	out := h.result(true)
	out["partial"] = true
	enc, err := json.Marshal(out)
	if err != nil {
		return
	}
	tmp := h.cfg.Partial + ".tmp"
	if os.WriteFile(tmp, enc, 0o644) == nil {
		_ = os.Rename(tmp, h.cfg.Partial)
	}
}
