package main

import (
	"bytes"
	"container/heap"
	"context"
	"encoding/binary"
	"fmt"
	"os"
	"runtime/debug"
	"sort"
	"sync"
	"time"

	"github.com/gordian-engine/gordian/gcrypto"
	"github.com/gordian-engine/gordian/tm/tmconsensus"
)

type kind uint8

const (
	kPH kind = iota
	kPrevote
	kPrecommit
)

func (k kind) String() string {
	switch k {
	case kPH:
		return "ph"
	case kPrevote:
		return "prevote"
	case kPrecommit:
		return "precommit"
	}
	return "?"
}

// sVote is one individually signed vote.
type sVote struct {
	hash   string // "" = nil vote
	signer int    // validator index, -1 if the key id is malformed
	sig    gcrypto.SparseSignature
}

// msg is one network message (a proposed header or a bundle of votes).
type msg struct {
	kind kind
	from int // validator index of the sender
	h    uint64
	r    uint32

	ph tmconsensus.ProposedHeader // kPH

	pubKeyHash string // votes
	votes      []sVote

	byz    bool  // injected by the Byzantine validator
	dests  []int // nil = all correct nodes (only for injected messages)
	direct bool  // skip the random link policy (still filtered)

	noPolicy  bool // redelivery after guard deferral: no routing, no filtering
	deferrals int
}

func msgFromPH(from int, ph tmconsensus.ProposedHeader) *msg {
	return &msg{kind: kPH, from: from, h: ph.Header.Height, r: ph.Round, ph: ph}
}

func msgFromVotes(from int, k kind, h uint64, r uint32, pkh string, proofs map[string][]gcrypto.SparseSignature) *msg {
	m := &msg{kind: k, from: from, h: h, r: r, pubKeyHash: pkh}
	for hash, sigs := range proofs {
		for _, s := range sigs {
			signer := -1
			if len(s.KeyID) == 2 {
				signer = int(binary.BigEndian.Uint16(s.KeyID))
			}
			m.votes = append(m.votes, sVote{hash: hash, signer: signer, sig: s})
		}
	}
	sort.Slice(m.votes, func(i, j int) bool {
		if m.votes[i].hash != m.votes[j].hash {
			return m.votes[i].hash < m.votes[j].hash
		}
		return m.votes[i].signer < m.votes[j].signer
	})
	return m
}

func (m *msg) proofs() map[string][]gcrypto.SparseSignature {
	out := make(map[string][]gcrypto.SparseSignature)
	for _, v := range m.votes {
		out[v.hash] = append(out[v.hash], v.sig)
	}
	for _, sigs := range out {
		sort.Slice(sigs, func(i, j int) bool { return bytes.Compare(sigs[i].KeyID, sigs[j].KeyID) < 0 })
	}
	return out
}

func (m *msg) withVotes(vs []sVote) *msg {
	c := *m
	c.votes = vs
	return &c
}

type verdict uint8

const (
	vPass verdict = iota
	vHold
	vDrop
)

// policy is the scenario hook set; every method runs on the scheduler goroutine.
type policy interface {
	// observe is the Byzantine observer tap: called for every message anyone sends.
	observe(m *msg, now time.Time)
	// route returns the delays (one entry per copy) for delivering m to dest.
	route(m *msg, dest int, now time.Time) []time.Duration
	// linkBlocked reports whether traffic from -> dest is currently cut (partition).
	linkBlocked(from, dest int, now time.Time) bool
	// voteVerdict filters a single vote heading for dest.
	voteVerdict(dest int, k kind, h uint64, r uint32, v sVote, now time.Time) verdict
	// phVerdict filters a proposed header heading for dest; on vHold the time says when to retry.
	phVerdict(dest int, m *msg, now time.Time) (verdict, time.Time)
	// tick is called every few milliseconds.
	tick(now time.Time)
}

type pqItem struct {
	due  time.Time
	seq  uint64
	dest int
	m    *msg
}

type delayHeap []pqItem

func (h delayHeap) Len() int { return len(h) }
func (h delayHeap) Less(i, j int) bool {
	if !h[i].due.Equal(h[j].due) {
		return h[i].due.Before(h[j].due)
	}
	return h[i].seq < h[j].seq
}
func (h delayHeap) Swap(i, j int) { h[i], h[j] = h[j], h[i] }
func (h *delayHeap) Push(x any)   { *h = append(*h, x.(pqItem)) }
func (h *delayHeap) Pop() any {
	old := *h
	n := len(old)
	it := old[n-1]
	*h = old[:n-1]
	return it
}

type heldVote struct {
	k          kind
	h          uint64
	r          uint32
	pubKeyHash string
	from       int
	v          sVote
}

// destQueue is the unbounded per-destination delivery queue.
type destQueue struct {
	mu     sync.Mutex
	items  []*msg
	notify chan struct{}
}

func (q *destQueue) push(m *msg) {
	q.mu.Lock()
	q.items = append(q.items, m)
	q.mu.Unlock()
	select {
	case q.notify <- struct{}{}:
	default:
	}
}

func (q *destQueue) pop() *msg {
	q.mu.Lock()
	defer q.mu.Unlock()
	if len(q.items) == 0 {
		return nil
	}
	m := q.items[0]
	q.items = q.items[1:]
	return m
}

type stats struct {
	mu sync.Mutex
	m  map[string]int64
}

func (s *stats) add(key string, n int64) {
	s.mu.Lock()
	if s.m == nil {
		s.m = map[string]int64{}
	}
	s.m[key] += n
	s.mu.Unlock()
}

func (s *stats) snapshot() map[string]int64 {
	s.mu.Lock()
	defer s.mu.Unlock()
	out := make(map[string]int64, len(s.m))
	for k, v := range s.m {
		out[k] = v
	}
	return out
}

type network struct {
	h   *harness
	pol policy

	in    chan *msg // from node pumps
	retry chan pqItem

	pq       delayHeap
	seq      uint64
	held     map[int][]heldVote
	partHeld []pqItem

	queues map[int]*destQueue

	st stats

	panicMu sync.Mutex
	panics  []string
}

func newNetwork(h *harness) *network {
	nw := &network{
		h:      h,
		in:     make(chan *msg, 4096),
		retry:  make(chan pqItem, 4096),
		held:   map[int][]heldVote{},
		queues: map[int]*destQueue{},
	}
	for _, i := range h.correct {
		nw.queues[i] = &destQueue{notify: make(chan struct{}, 1)}
	}
	return nw
}

func (nw *network) recordPanic(s string) {
	nw.panicMu.Lock()
	nw.panics = append(nw.panics, s)
	nw.panicMu.Unlock()
	fmt.Fprintln(os.Stderr, "harness: recovered panic:", s)
}

func (nw *network) panicList() []string {
	nw.panicMu.Lock()
	defer nw.panicMu.Unlock()
	return append([]string{}, nw.panics...)
}

// run is the central scheduler goroutine. It owns the PRNG and the policy.
func (nw *network) run(ctx context.Context) {
	tk := time.NewTicker(2 * time.Millisecond)
	defer tk.Stop()
	lastHeld := time.Now()
	for {
		select {
		case <-ctx.Done():
			return
		case m := <-nw.in:
			nw.safely(func() { nw.outgoing(m, time.Now()) })
		case it := <-nw.retry:
			nw.seq++
			it.seq = nw.seq
			heap.Push(&nw.pq, it)
		case now := <-tk.C:
			nw.safely(func() {
				nw.pol.tick(now)
				nw.flushDue(now)
				if now.Sub(lastHeld) >= 20*time.Millisecond {
					lastHeld = now
					nw.reexamine(now)
				}
			})
		}
	}
}

func (nw *network) safely(f func()) {
	defer func() {
		if r := recover(); r != nil {
			nw.recordPanic(fmt.Sprintf("scheduler: %v\n%s", r, debug.Stack()))
		}
	}()
	f()
}

// inject is used by the Byzantine validator (scheduler goroutine only).
func (nw *network) inject(m *msg, now time.Time) {
	m.byz = true
	nw.st.add("byz_injected", 1)
	nw.outgoing(m, now)
}

func (nw *network) outgoing(m *msg, now time.Time) {
	if !m.byz {
		nw.st.add("sent", 1)
		nw.st.add("sent_"+m.kind.String(), 1)
	}
	nw.pol.observe(m, now)

	dests := m.dests
	if dests == nil {
		dests = nw.h.correct
	}
	for _, d := range dests {
		if d == m.from || nw.queues[d] == nil {
			continue
		}
		var delays []time.Duration
		if m.direct {
			delays = []time.Duration{0}
		} else {
			delays = nw.pol.route(m, d, now)
		}
		if len(delays) > 1 {
			nw.st.add("duplicated", int64(len(delays)-1))
		}
		for _, dl := range delays {
			if dl <= 0 {
				nw.arrive(d, m, now)
				continue
			}
			nw.st.add("delayed", 1)
			nw.schedule(d, m, now.Add(dl))
		}
	}
}

func (nw *network) schedule(dest int, m *msg, due time.Time) {
	nw.seq++
	heap.Push(&nw.pq, pqItem{due: due, seq: nw.seq, dest: dest, m: m})
}

func (nw *network) flushDue(now time.Time) {
	for nw.pq.Len() > 0 && !nw.pq[0].due.After(now) {
		it := heap.Pop(&nw.pq).(pqItem)
		nw.arrive(it.dest, it.m, now)
	}
	// Heal: release messages held by a partition that no longer blocks them.
	if len(nw.partHeld) > 0 {
		keep := nw.partHeld[:0]
		var rel []pqItem
		for _, it := range nw.partHeld {
			if nw.pol.linkBlocked(it.m.from, it.dest, now) {
				keep = append(keep, it)
			} else {
				rel = append(rel, it)
			}
		}
		nw.partHeld = keep
		for _, it := range rel {
			nw.arrive(it.dest, it.m, now)
		}
	}
}

// arrive applies partition and filter to a message that reached dest's side of the link.
func (nw *network) arrive(dest int, m *msg, now time.Time) {
	if m.noPolicy {
		nw.queues[dest].push(m)
		return
	}
	if nw.pol.linkBlocked(m.from, dest, now) {
		nw.st.add("partition_held", 1)
		nw.partHeld = append(nw.partHeld, pqItem{dest: dest, m: m})
		return
	}
	if m.kind == kPH {
		v, until := nw.pol.phVerdict(dest, m, now)
		switch v {
		case vDrop:
			nw.st.add("ph_dropped", 1)
		case vHold:
			nw.st.add("ph_held", 1)
			nw.schedule(dest, m, until)
		default:
			nw.queues[dest].push(m)
		}
		return
	}

	var pass []sVote
	for _, v := range m.votes {
		switch nw.pol.voteVerdict(dest, m.kind, m.h, m.r, v, now) {
		case vPass:
			pass = append(pass, v)
		case vHold:
			nw.st.add("votes_stripped", 1)
			nw.addHeld(dest, heldVote{k: m.kind, h: m.h, r: m.r, pubKeyHash: m.pubKeyHash, from: m.from, v: v})
		case vDrop:
			nw.st.add("votes_stripped", 1)
			nw.st.add("votes_filtered_for_good", 1)
		}
	}
	if len(pass) == 0 {
		nw.st.add("msgs_fully_stripped", 1)
		return
	}
	if len(pass) != len(m.votes) {
		m = m.withVotes(pass)
	}
	nw.queues[dest].push(m)
}

func (nw *network) addHeld(dest int, hv heldVote) {
	for _, e := range nw.held[dest] {
		if e.k == hv.k && e.h == hv.h && e.r == hv.r && e.v.hash == hv.v.hash && e.v.signer == hv.v.signer {
			return // already held
		}
	}
	nw.st.add("held", 1)
	nw.held[dest] = append(nw.held[dest], hv)
}

// reexamine re-checks the held votes of every destination.
func (nw *network) reexamine(now time.Time) {
	for dest, hs := range nw.held {
		if len(hs) == 0 {
			continue
		}
		keep := hs[:0]
		type gk struct {
			k   kind
			h   uint64
			r   uint32
			pkh string
		}
		groups := map[gk]*msg{}
		var order []gk
		for _, hv := range hs {
			switch nw.pol.voteVerdict(dest, hv.k, hv.h, hv.r, hv.v, now) {
			case vHold:
				keep = append(keep, hv)
			case vDrop:
				nw.st.add("votes_filtered_for_good", 1)
			case vPass:
				k := gk{hv.k, hv.h, hv.r, hv.pubKeyHash}
				g := groups[k]
				if g == nil {
					g = &msg{kind: hv.k, from: hv.from, h: hv.h, r: hv.r, pubKeyHash: hv.pubKeyHash}
					groups[k] = g
					order = append(order, k)
				}
				g.votes = append(g.votes, hv.v)
			}
		}
		nw.held[dest] = keep
		for _, k := range order {
			nw.st.add("held_released", int64(len(groups[k].votes)))
			nw.queues[dest].push(groups[k])
		}
	}
}

// deliverLoop is the per-destination delivery goroutine.
func (nw *network) deliverLoop(ctx context.Context, dest int) {
	q := nw.queues[dest]
	for {
		m := q.pop()
		if m == nil {
			select {
			case <-ctx.Done():
				return
			case <-q.notify:
			case <-time.After(10 * time.Millisecond):
			}
			continue
		}
		if ctx.Err() != nil {
			return
		}
		nw.deliverOne(ctx, dest, m)
	}
}

func (nw *network) deferMsg(dest int, m *msg, reason string) {
	c := *m
	c.noPolicy = true
	c.deferrals++
	if c.deferrals > 250 {
		nw.st.add("guard_gave_up_"+reason, 1)
		return
	}
	nw.st.add("guard_deferred_"+reason, 1)
	select {
	case nw.retry <- pqItem{due: time.Now().Add(20 * time.Millisecond), dest: dest, m: &c}:
	default:
		nw.st.add("guard_retry_overflow", 1)
	}
}

func (nw *network) deliverOne(ctx context.Context, dest int, m *msg) {
	n := nw.h.nodes[dest]
	e := n.eng.Load()
	if e == nil {
		// Node is down (restart in progress): keep the message.
		nw.deferMsg(dest, m, "node_down")
		return
	}

	if nw.h.cfg.Guard {
		vh, vr, ch, cr, err := n.stores.mirror.NetworkHeightRound(ctx)
		if err == nil {
			switch {
			case m.h == ch && m.r > cr && ch != vh:
				// The kernel panics on anything for the committing height beyond the committing round.
				nw.st.add("guard_dropped_committing_height_later_round", 1)
				return
			case m.kind == kPH && m.h == vh && m.r > vr+1:
				nw.deferMsg(dest, m, "ph_round_beyond_next")
				return
			case m.kind == kPH && m.h > vh+1:
				nw.deferMsg(dest, m, "ph_height_beyond_next")
				return
			case m.kind == kPH && m.h == vh+1 && m.deferrals < 5:
				// Next-height proposals take the commit-backfill path (which can livelock in
				// HandleProposedHeader); give the node ~100 ms to get there by itself first.
				nw.deferMsg(dest, m, "ph_next_height")
				return
			case m.kind != kPH && (m.h > vh || (m.h == vh && m.r > vr+1)):
				// "Future" votes are stored but never loaded again by the mirror, and
				// the addFuture* path panics when the view shifts concurrently.
				nw.deferMsg(dest, m, "future_vote")
				return
			}
		}
	}

	cctx, cancel := context.WithTimeout(ctx, 2*time.Second)
	defer cancel()
	defer func() {
		if r := recover(); r != nil {
			nw.recordPanic(fmt.Sprintf("deliver to %d %s h=%d r=%d from=%d: %v", dest, m.kind, m.h, m.r, m.from, r))
		}
	}()

	nw.st.add("delivered", 1)
	var res string
	switch m.kind {
	case kPH:
		res = "ph:" + e.HandleProposedHeader(cctx, m.ph).String()
	case kPrevote:
		res = "prevote:" + e.HandlePrevoteProofs(cctx, tmconsensus.PrevoteSparseProof{
			Height: m.h, Round: m.r, PubKeyHash: m.pubKeyHash, Proofs: m.proofs(),
		}).String()
	case kPrecommit:
		res = "precommit:" + e.HandlePrecommitProofs(cctx, tmconsensus.PrecommitSparseProof{
			Height: m.h, Round: m.r, PubKeyHash: m.pubKeyHash, Proofs: m.proofs(),
		}).String()
	}
	nw.st.add("result_"+res, 1)
	if nw.h.cfg.Verbose > 1 {
		fmt.Fprintf(os.Stderr, "deliver ->%d %s h=%d r=%d from=%d byz=%v votes=%s => %s\n",
			dest, m.kind, m.h, m.r, m.from, m.byz, voteSummary(m), res)
	}
}

func voteSummary(m *msg) string {
	if m.kind == kPH {
		return fmt.Sprintf("%x", short(m.ph.Header.Hash))
	}
	var b bytes.Buffer
	for i, v := range m.votes {
		if i > 0 {
			b.WriteByte(',')
		}
		if v.hash == "" {
			fmt.Fprintf(&b, "%d:nil", v.signer)
		} else {
			fmt.Fprintf(&b, "%d:%x", v.signer, short([]byte(v.hash)))
		}
	}
	return b.String()
}

func short(b []byte) []byte {
	if len(b) > 4 {
		return b[:4]
	}
	return b
}

// splitmix is the SplitMix64 PRNG; all harness randomness comes from it.
type splitmix struct{ s uint64 }

func (r *splitmix) next() uint64 {
	r.s += 0x9e3779b97f4a7c15
	z := r.s
	z = (z ^ (z >> 30)) * 0xbf58476d1ce4e5b9
	z = (z ^ (z >> 27)) * 0x94d049bb133111eb
	return z ^ (z >> 31)
}

func (r *splitmix) intn(n int) int {
	if n <= 0 {
		return 0
	}
	return int(r.next() % uint64(n))
}

func (r *splitmix) chance(pct int) bool { return r.intn(100) < pct }
