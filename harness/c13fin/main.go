// Harness for C13 (BLS scheme, finalized proofs): drives the REAL gblsminsig.SignatureProofScheme
// Finalize / ValidateFinalizedProof.  One JSON case per line on stdin:
//
//	{"op":"fin","n":N,"main":{"msg":[..],"bits":[..]},"rest":[{"msg":[..],"bits":[..]},..],"hashes":[[msg,hash],..]}
//	   real proofs are built with NewSignatureProof over N real keys, every listed signer signs the block's
//	   sign content and is added with AddSignature; then Finalize(main, rest) and ValidateFinalizedProof of the result.
//	   Output, two lines:  "F ..." finalized key ids (per entry: len, bytes, 1 iff Sig is the blst sum of the signers'
//	   signatures; main first, then per INPUT rest proof in input order, 998 = not in Rest), 999 = panic
//	                       "V ..." 999 panic | 0 u (nil map) | 1 u {len(hash) hash mask}* sorted by hash ("V" alone if F panicked)
//	{"op":"val","n":N,"mainmsg":[..],"mainsigs":[{"id":[..],"sig":S}],"rest":[{"msg":[..],"sigs":[{"id":..,"sig":S}]}],"hashes":[..]}
//	   ValidateFinalizedProof on an arbitrary finalized proof; S = {"k":0,"m":[msg],"l":[leaves]} genuine aggregate,
//	   {"k":1,"v":x} another decodable point, {"k":2,"v":x} undecodable bytes.  Output: one "V ..." line.
package main

import (
	"bufio"
	"bytes"
	"context"
	"encoding/json"
	"fmt"
	"math/big"
	"os"
	"sort"
	"strings"

	"github.com/bits-and-blooms/bitset"
	"github.com/gordian-engine/gordian/gcrypto"
	"github.com/gordian-engine/gordian/gcrypto/gblsminsig"
	blst "github.com/supranational/blst/bindings/go"
)

type Block struct {
	Msg  []int `json:"msg"`
	Bits []int `json:"bits"`
}

type Sig struct {
	K int   `json:"k"`
	M []int `json:"m"`
	L []int `json:"l"`
	V int   `json:"v"`
}

type Ent struct {
	ID  []int `json:"id"`
	Sig Sig   `json:"sig"`
}

type RestEnt struct {
	Msg  []int `json:"msg"`
	Sigs []Ent `json:"sigs"`
}

type Case struct {
	Op       string    `json:"op"`
	N        int       `json:"n"`
	Main     Block     `json:"main"`
	Rest     []Block   `json:"rest"`
	Hashes   [][][]int `json:"hashes"`
	MainMsg  []int     `json:"mainmsg"`
	MainSigs []Ent     `json:"mainsigs"`
	VRest    []RestEnt `json:"vrest"`
}

var signers []gblsminsig.Signer
var pubs []gblsminsig.PubKey

func signer(i int) gblsminsig.Signer {
	for len(signers) <= i {
		ikm := []byte(fmt.Sprintf("verif-c13-fin-key-%04d-0123456789abcdef0123456789", len(signers)))
		s, err := gblsminsig.NewSigner(ikm)
		if err != nil {
			panic(err)
		}
		signers = append(signers, s)
		pubs = append(pubs, s.PubKey().(gblsminsig.PubKey))
	}
	return signers[i]
}

func keys(n int) []gblsminsig.PubKey {
	if n > 0 {
		signer(n - 1)
	}
	return pubs[:n]
}

func toBytes(x []int) []byte {
	b := make([]byte, len(x))
	for i, v := range x {
		b[i] = byte(v)
	}
	return b
}

var sigCache = map[string][]byte{}

func leafSig(i int, msg []byte) []byte {
	k := fmt.Sprintf("%d/%x", i, msg)
	if s, ok := sigCache[k]; ok {
		return s
	}
	b, err := signer(i).Sign(context.Background(), msg)
	if err != nil {
		panic(err)
	}
	sigCache[k] = b
	return b
}

// aggSig adds the leaves' signatures with blst, independently of the tree code.
func aggSig(leaves []int, msg []byte) []byte {
	acc := new(blst.P1)
	for _, i := range leaves {
		p := new(blst.P1Affine).Uncompress(leafSig(i, msg))
		acc = acc.Add(p)
	}
	return acc.ToAffine().Compress()
}

func sigBytes(s Sig) []byte {
	switch s.K {
	case 0:
		return aggSig(s.L, toBytes(s.M))
	case 1:
		b, _ := signer(s.V%5).Sign(context.Background(), []byte(fmt.Sprintf("verif-c13fin-junk-%d", s.V)))
		return b
	default:
		switch s.V % 5 {
		case 0:
			return nil
		case 1:
			return []byte{1, 2, 3}
		case 2:
			b := make([]byte, 48)
			for i := range b {
				b[i] = 0x11
			}
			return b
		case 3:
			return make([]byte, 47)
		default:
			b := make([]byte, 96)
			b[0] = 0x80
			return b
		}
	}
}

func mask(b *bitset.BitSet) *big.Int {
	z := new(big.Int)
	for u, ok := b.NextSet(0); ok; u, ok = b.NextSet(u + 1) {
		z.SetBit(z, int(u), 1)
	}
	return z
}

func hashesMap(h [][][]int) map[string]string {
	m := make(map[string]string, len(h))
	for _, p := range h {
		m[string(toBytes(p[0]))] = string(toBytes(p[1]))
	}
	return m
}

func entry(w *strings.Builder, ss []gcrypto.SparseSignature, want []byte) {
	fmt.Fprintf(w, " %d", len(ss))
	for _, s := range ss {
		fmt.Fprintf(w, " %d", len(s.KeyID))
		for _, b := range s.KeyID {
			fmt.Fprintf(w, " %d", b)
		}
		if bytes.Equal(s.Sig, want) {
			w.WriteString(" 1")
		} else {
			w.WriteString(" 0")
		}
	}
}

func validate(f gcrypto.FinalizedCommonMessageSignatureProof, hashes map[string]string) (out string) {
	defer func() {
		if r := recover(); r != nil {
			out = "V 999"
		}
	}()
	res, unique := gblsminsig.SignatureProofScheme{}.ValidateFinalizedProof(f, hashes)
	u := 0
	if unique {
		u = 1
	}
	if res == nil {
		return fmt.Sprintf("V 0 %d", u)
	}
	hs := make([]string, 0, len(res))
	for h := range res {
		hs = append(hs, h)
	}
	sort.Strings(hs)
	var w strings.Builder
	fmt.Fprintf(&w, "V 1 %d", u)
	for _, h := range hs {
		fmt.Fprintf(&w, " %d", len(h))
		for _, b := range []byte(h) {
			fmt.Fprintf(&w, " %d", b)
		}
		fmt.Fprintf(&w, " %s", mask(res[h]).String())
	}
	return w.String()
}

func build(n int, b Block) gblsminsig.SignatureProof {
	msg := toBytes(b.Msg)
	p, err := gblsminsig.NewSignatureProof(msg, keys(n), "kh")
	if err != nil {
		panic(err)
	}
	for _, i := range b.Bits {
		if err := p.AddSignature(leafSig(i, msg), pubs[i]); err != nil {
			panic(err)
		}
	}
	return p
}

func finalize(c Case) (fout string, f gcrypto.FinalizedCommonMessageSignatureProof, ok bool) {
	main := build(c.N, c.Main)
	rest := make([]gcrypto.CommonMessageSignatureProof, len(c.Rest))
	for i, b := range c.Rest {
		rest[i] = build(c.N, b)
	}
	defer func() {
		if r := recover(); r != nil {
			fout, ok = "F 999", false
		}
	}()
	f = gblsminsig.SignatureProofScheme{}.Finalize(main, rest)
	var w strings.Builder
	w.WriteString("F")
	entry(&w, f.MainSignatures, aggSig(c.Main.Bits, toBytes(c.Main.Msg)))
	fmt.Fprintf(&w, " %d", len(f.Rest))
	for _, b := range c.Rest {
		ss, have := f.Rest[string(toBytes(b.Msg))]
		if !have {
			w.WriteString(" 998")
			continue
		}
		entry(&w, ss, aggSig(b.Bits, toBytes(b.Msg)))
	}
	return w.String(), f, true
}

func sparse(es []Ent) []gcrypto.SparseSignature {
	out := make([]gcrypto.SparseSignature, len(es))
	for i, e := range es {
		out[i] = gcrypto.SparseSignature{KeyID: toBytes(e.ID), Sig: sigBytes(e.Sig)}
	}
	return out
}

func main() {
	sc := bufio.NewScanner(os.Stdin)
	sc.Buffer(make([]byte, 1<<20), 1<<26)
	w := bufio.NewWriter(os.Stdout)
	defer w.Flush()
	for sc.Scan() {
		line := strings.TrimSpace(sc.Text())
		if line == "" {
			continue
		}
		var c Case
		if err := json.Unmarshal([]byte(line), &c); err != nil {
			fmt.Fprintln(w, "E", err)
			continue
		}
		switch c.Op {
		case "fin":
			fout, f, ok := finalize(c)
			fmt.Fprintln(w, fout)
			if ok {
				fmt.Fprintln(w, validate(f, hashesMap(c.Hashes)))
			} else {
				fmt.Fprintln(w, "V")
			}
		case "val":
			ks := keys(c.N)
			gk := make([]gcrypto.PubKey, len(ks))
			for i, k := range ks {
				gk[i] = k
			}
			f := gcrypto.FinalizedCommonMessageSignatureProof{
				Keys: gk, PubKeyHash: "kh", MainMessage: toBytes(c.MainMsg), MainSignatures: sparse(c.MainSigs),
			}
			if c.VRest != nil {
				f.Rest = make(map[string][]gcrypto.SparseSignature, len(c.VRest))
				for _, r := range c.VRest {
					f.Rest[string(toBytes(r.Msg))] = sparse(r.Sigs)
				}
			}
			fmt.Fprintln(w, validate(f, hashesMap(c.Hashes)))
		default:
			fmt.Fprintln(w, "E unknown op")
		}
	}
}
