// Harness for C13 (BLS part): drives the REAL gblsminsig combination-index functions (through the
// verif hook) and the exported ValidateFinalizedProof on lines read from stdin:
//   enc <n> <bitmask>          -> "<idx>" | "P"
//   dec <n> <k> <idx>          -> "<bitmask>" | "P"
//   vfp <n> <b0,b1,...>        -> ValidateFinalizedProof with n real keys and that main key id: "P" | "nil <unique>" | "ok <unique>"
package main

import (
	"bufio"
	"fmt"
	"math/big"
	"os"
	"strconv"
	"strings"

	"github.com/bits-and-blooms/bitset"
	"github.com/gordian-engine/gordian/gcrypto"
	"github.com/gordian-engine/gordian/gcrypto/gblsminsig"
)

var keyCache []gcrypto.PubKey

func keys(n int) []gcrypto.PubKey {
	for len(keyCache) < n {
		ikm := []byte(fmt.Sprintf("verif-c13-bls-key-%04d-0123456789abcdef0123456789", len(keyCache)))
		s, err := gblsminsig.NewSigner(ikm)
		if err != nil {
			panic(err)
		}
		keyCache = append(keyCache, s.PubKey())
	}
	return keyCache[:n]
}

func maskToBitset(z *big.Int) *bitset.BitSet {
	var b bitset.BitSet
	for i := 0; i < z.BitLen(); i++ {
		if z.Bit(i) == 1 {
			b.Set(uint(i))
		}
	}
	return &b
}

func bitsetToMask(b *bitset.BitSet) *big.Int {
	z := new(big.Int)
	for u, ok := b.NextSet(0); ok; u, ok = b.NextSet(u + 1) {
		z.SetBit(z, int(u), 1)
	}
	return z
}

func do(f []string) (out string) {
	defer func() {
		if r := recover(); r != nil {
			out = "P"
		}
	}()
	switch f[0] {
	case "enc":
		n, _ := strconv.Atoi(f[1])
		m, _ := new(big.Int).SetString(f[2], 10)
		var idx big.Int
		gblsminsig.VerifCalculateCombinationIndex(n, maskToBitset(m), &idx)
		return idx.String()
	case "dec":
		n, _ := strconv.Atoi(f[1])
		k, _ := strconv.Atoi(f[2])
		idx, _ := new(big.Int).SetString(f[3], 10)
		var b bitset.BitSet
		gblsminsig.VerifDecodeCombinationIndex(n, k, idx, &b)
		return bitsetToMask(&b).String()
	case "vfp":
		n, _ := strconv.Atoi(f[1])
		var id []byte
		if f[2] != "-" {
			for _, x := range strings.Split(f[2], ",") {
				v, _ := strconv.Atoi(x)
				id = append(id, byte(v))
			}
		}
		msg := []byte("verif-c13-main")
		proof := gcrypto.FinalizedCommonMessageSignatureProof{
			Keys: keys(n), PubKeyHash: "kh", MainMessage: msg,
			MainSignatures: []gcrypto.SparseSignature{{KeyID: id, Sig: make([]byte, 48)}},
		}
		res, unique := gblsminsig.SignatureProofScheme{}.ValidateFinalizedProof(proof, map[string]string{string(msg): "h"})
		if res == nil {
			return fmt.Sprintf("nil %v", unique)
		}
		return fmt.Sprintf("ok %v", unique)
	}
	return "?"
}

func main() {
	sc := bufio.NewScanner(os.Stdin)
	sc.Buffer(make([]byte, 1<<20), 1<<26)
	w := bufio.NewWriter(os.Stdout)
	defer w.Flush()
	for sc.Scan() {
		f := strings.Fields(sc.Text())
		if len(f) == 0 {
			continue
		}
		fmt.Fprintln(w, do(f))
	}
}
