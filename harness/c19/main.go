// Harness for C19: drives the REAL gdriver/gtxbuf code on the cases read from stdin (JSON)
// and prints the projected observations (JSON).
//
// Three drivers per run:
//
//	direct: the unexported workingState through the verif hook (CheckAddTx/Buffered/Rebase),
//	        with a snapshot of its raw fields after every request;
//	api:    the public Buffer (New/Initialize/AddTx/Buffered/Rebase through the kernel
//	        goroutine), sequential caller, Buffered(nil) read after every request;
//	conc:   the public Buffer with several goroutines issuing requests concurrently.
//
// The state/transaction semantics (applyTx, deleterFor) is the fixture that is defined
// identically in coq/Model/TxBufInst.v.
package main

import (
	"context"
	"encoding/json"
	"errors"
	"fmt"
	"io"
	"log/slog"
	"os"
	"runtime"
	"sync"
	"sync/atomic"
	"time"

	"github.com/gordian-engine/gordian/gdriver/gtxbuf"
)

type Tx struct{ K, A, B, V uint64 }
type State []uint64

type codeErr struct{ code uint64 }

func (e codeErr) Error() string { return fmt.Sprintf("code %d", e.code) }

func invalid(code uint64) error {
	var err error = gtxbuf.TxInvalidError{Err: codeErr{code}}
	if code%2 == 1 {
		// errors.As must also find a wrapped TxInvalidError.
		err = fmt.Errorf("apply: %w", err)
	}
	return err
}

func fatal(code uint64) error {
	var err error = codeErr{code}
	if code%2 == 0 {
		err = fmt.Errorf("apply: %w", err)
	}
	return err
}

func with(s State, a uint64, v uint64) State {
	n := make(State, len(s))
	copy(n, s)
	n[a] = v
	return n
}

// applyFor returns the addTxFunc for the given cap. Mirrors apply_inst of TxBufInst.v.
func applyFor(cap uint64) func(context.Context, State, Tx) (State, error) {
	return func(_ context.Context, s State, t Tx) (State, error) {
		if t.K == 5 {
			return s, nil
		}
		if t.K >= 6 {
			return nil, fatal(99)
		}
		if t.A >= uint64(len(s)) {
			return nil, invalid(7)
		}
		ba := s[t.A]
		switch t.K {
		case 0:
			if t.V <= ba {
				return with(s, t.A, ba-t.V), nil
			}
			return nil, invalid(1)
		case 1:
			if t.V <= cap && ba <= cap-t.V {
				return with(s, t.A, ba+t.V), nil
			}
			return nil, invalid(2)
		case 2:
			if t.B >= uint64(len(s)) {
				return nil, invalid(7)
			}
			bb := s[t.B]
			if t.A != t.B && t.V <= ba && t.V <= cap && bb <= cap-t.V {
				return with(with(s, t.A, ba-t.V), t.B, bb+t.V), nil
			}
			return nil, invalid(3)
		case 3:
			if ba == t.V && t.V < cap {
				return with(s, t.A, t.V+1), nil
			}
			return nil, invalid(4)
		default: // 4
			if ba == t.V {
				return nil, fatal(100 + t.V)
			}
			return s, nil
		}
	}
}

// deleterFor mirrors deleter_inst of TxBufInst.v.
func deleterFor(mode uint64) func(context.Context, []Tx) func(Tx) bool {
	return func(_ context.Context, reject []Tx) func(Tx) bool {
		switch mode {
		case 0:
			m := make(map[Tx]struct{}, len(reject))
			for _, r := range reject {
				m[r] = struct{}{}
			}
			return func(t Tx) bool { _, ok := m[t]; return ok }
		case 1:
			type key struct{ K, A uint64 }
			m := make(map[key]struct{}, len(reject))
			for _, r := range reject {
				m[key{r.K, r.A}] = struct{}{}
			}
			return func(t Tx) bool { _, ok := m[key{t.K, t.A}]; return ok }
		default:
			return func(Tx) bool { return false }
		}
	}
}

// classify projects an error to (class, code): 0 none, 1 invalid, 2 fatal, 3 context/other.
func classify(err error) [2]uint64 {
	if err == nil {
		return [2]uint64{0, 0}
	}
	var ce codeErr
	if !errors.As(err, &ce) {
		return [2]uint64{3, 0}
	}
	if errors.As(err, new(gtxbuf.TxInvalidError)) {
		return [2]uint64{1, ce.code}
	}
	return [2]uint64{2, ce.code}
}

type OpIn struct {
	K       string      `json:"k"` // "a" add, "b" buffered, "r" rebase
	T       [4]uint64   `json:"t,omitempty"`
	Dst     [][4]uint64 `json:"dst,omitempty"`
	Base    []uint64    `json:"base,omitempty"`
	Applied [][4]uint64 `json:"applied,omitempty"`
}

type CaseIn struct {
	ID      int      `json:"id"`
	Mode    uint64   `json:"mode"`
	Cap     uint64   `json:"cap"`
	Base    []uint64 `json:"base"`
	Ops     []OpIn   `json:"ops"`
	Threads [][]OpIn `json:"threads,omitempty"`
	// Slow (concurrent cases): microseconds the deleter's predicate takes per transaction, so that the in-place
	// compaction of a rebase lasts long enough for a request that is not serialised with it to observe it
	Slow uint64 `json:"slow,omitempty"`
}

type Input struct {
	Cases []CaseIn `json:"cases"`
	Conc  []CaseIn `json:"conc"`
}

type Snap struct {
	B []uint64    `json:"b"`
	C []uint64    `json:"c"`
	U bool        `json:"u"`
	T [][4]uint64 `json:"t"`
}

type StepOut struct {
	E [2]uint64   `json:"e"`
	L [][4]uint64 `json:"l"`
	S *Snap       `json:"s,omitempty"`
	P [][4]uint64 `json:"p,omitempty"`
}

type CaseOut struct {
	ID      int         `json:"id"`
	Steps   []StepOut   `json:"steps"`
	Threads [][]StepOut `json:"threads,omitempty"`
	Final   [][4]uint64 `json:"final,omitempty"`
	Panic   string      `json:"panic,omitempty"`
	// Alias: a list returned by Buffered / Rebase did not stay the caller's own value: "<step>:changed" = it changed under a
	// later request; "<step>:leaked" = overwriting it changed the buffer's pending list
	Alias string `json:"alias,omitempty"`
}

// held keeps every list handed out by the buffer, to see whether it stays the caller's own value
type held struct {
	step int
	got  []Tx
	was  []Tx
}

func sameTxs(a, b []Tx) bool {
	if len(a) != len(b) {
		return false
	}
	for i := range a {
		if a[i] != b[i] {
			return false
		}
	}
	return true
}

func checkHeld(hs []held) string {
	for _, h := range hs {
		if !sameTxs(h.got, h.was) {
			return fmt.Sprintf("%d:changed", h.step)
		}
	}
	return ""
}

type Output struct {
	Direct []CaseOut `json:"direct"`
	API    []CaseOut `json:"api"`
	Conc   []CaseOut `json:"conc"`
}

func toTx(a [4]uint64) Tx { return Tx{a[0], a[1], a[2], a[3]} }
func toTxs(l [][4]uint64) []Tx {
	if l == nil {
		return nil
	}
	out := make([]Tx, len(l))
	for i, a := range l {
		out[i] = toTx(a)
	}
	return out
}
func fromTxs(l []Tx) [][4]uint64 {
	out := make([][4]uint64, len(l))
	for i, t := range l {
		out[i] = [4]uint64{t.K, t.A, t.B, t.V}
	}
	return out
}
func cp(s []uint64) []uint64 {
	out := make([]uint64, len(s))
	copy(out, s)
	return out
}

func runDirect(c CaseIn) (co CaseOut) {
	co.ID = c.ID
	defer func() {
		if r := recover(); r != nil {
			co.Panic = fmt.Sprint(r)
		}
	}()
	ctx := context.Background()
	w := gtxbuf.VerifNewWorkingState[State, Tx](State(cp(c.Base)), applyFor(c.Cap), deleterFor(c.Mode))
	var hs []held
	defer func() {
		// overwriting what the caller was given must not reach the pending list
		if co.Alias == "" && co.Panic == "" {
			_, _, _, before := w.Snapshot()
			keep := append([]Tx(nil), before...)
			for _, h := range hs {
				for i := range h.got {
					h.got[i] = Tx{}
				}
				_, _, _, now := w.Snapshot()
				if !sameTxs(now, keep) {
					co.Alias = fmt.Sprintf("%d:leaked", h.step)
					break
				}
			}
		}
	}()
	for _, op := range c.Ops {
		var so StepOut
		switch op.K {
		case "a":
			so.E = classify(w.CheckAddTx(ctx, toTx(op.T)))
			so.L = [][4]uint64{}
		case "b":
			got := w.Buffered(toTxs(op.Dst))
			so.L = fromTxs(got)
			hs = append(hs, held{len(co.Steps), got, append([]Tx(nil), got...)})
		case "r":
			inv, err := w.Rebase(ctx, State(cp(op.Base)), toTxs(op.Applied))
			so.E = classify(err)
			so.L = fromTxs(inv)
			hs = append(hs, held{len(co.Steps), inv, append([]Tx(nil), inv...)})
		}
		if co.Alias == "" {
			co.Alias = checkHeld(hs)
		}
		b, cur, u, txs := w.Snapshot()
		so.S = &Snap{B: cp(b), C: cp(cur), U: u, T: fromTxs(txs)}
		co.Steps = append(co.Steps, so)
	}
	return co
}

func doAPI(ctx context.Context, buf *gtxbuf.Buffer[State, Tx], op OpIn) StepOut {
	var so StepOut
	switch op.K {
	case "a":
		so.E = classify(buf.AddTx(ctx, toTx(op.T)))
		so.L = [][4]uint64{}
	case "b":
		so.L = fromTxs(buf.Buffered(ctx, toTxs(op.Dst)))
	case "r":
		inv, err := buf.Rebase(ctx, State(cp(op.Base)), toTxs(op.Applied))
		so.E = classify(err)
		so.L = fromTxs(inv)
	}
	return so
}

var quiet = slog.New(slog.NewTextHandler(io.Discard, nil))

func runAPI(c CaseIn) (co CaseOut) {
	co.ID = c.ID
	defer func() {
		if r := recover(); r != nil {
			co.Panic = fmt.Sprint(r)
		}
	}()
	ctx, cancel := context.WithCancel(context.Background())
	del := deleterFor(c.Mode)
	if c.Slow > 0 {
		fast := del
		del = func(ctx context.Context, reject []Tx) func(Tx) bool {
			p := fast(ctx, reject)
			n := 0
			return func(t Tx) bool {
				// the first three decisions are instantaneous (the compaction has begun to move entries), the later
				// ones are slow: the half-compacted list stays in place for a while
				if n++; n > 3 {
					time.Sleep(time.Duration(c.Slow) * time.Microsecond)
				}
				return p(t)
			}
		}
	}
	apply := applyFor(c.Cap)
	// slow concurrent cases: the first operation of the first thread is an AddTx inside whose validation the kernel is held
	// (gate) until every other caller has queued its request; the kernel then serves those requests back to back
	var gateArmed atomic.Bool
	entered, release := make(chan struct{}), make(chan struct{})
	if c.Slow > 0 {
		plain := apply
		apply = func(ctx context.Context, st State, t Tx) (State, error) {
			if gateArmed.CompareAndSwap(true, false) {
				close(entered)
				<-release
			}
			return plain(ctx, st, t)
		}
	}
	buf := gtxbuf.New[State, Tx](ctx, quiet, apply, del)
	defer buf.Wait()
	defer cancel()
	if !buf.Initialize(ctx, State(cp(c.Base))) {
		co.Panic = "initialize failed"
		return co
	}
	var hs []held
	for _, op := range c.Ops {
		so := doAPI(ctx, buf, op)
		got := buf.Buffered(ctx, nil)
		so.P = fromTxs(got)
		hs = append(hs, held{len(co.Steps), got, append([]Tx(nil), got...)})
		co.Steps = append(co.Steps, so)
		if co.Alias == "" {
			co.Alias = checkHeld(hs)
		}
	}
	if co.Alias == "" {
		keep := append([]Tx(nil), buf.Buffered(ctx, make([]Tx, 0, 8))...)
		for _, h := range hs {
			for i := range h.got {
				h.got[i] = Tx{}
			}
			if !sameTxs(buf.Buffered(ctx, make([]Tx, 0, 8)), keep) {
				co.Alias = fmt.Sprintf("%d:leaked", h.step)
				break
			}
		}
	}
	if len(c.Threads) > 0 {
		start := make(chan struct{})
		var wg sync.WaitGroup
		co.Threads = make([][]StepOut, len(c.Threads))
		gated := c.Slow > 0 && len(c.Threads[0]) > 0 && c.Threads[0][0].K == "a"
		if gated {
			gateArmed.Store(true)
		}
		for i := range c.Threads {
			wg.Add(1)
			go func(i int) {
				defer wg.Done()
				if gated && i > 0 {
					// wait until the kernel is inside the gated AddTx of thread 0
					select {
					case <-entered:
					case <-time.After(time.Second):
					}
				}
				<-start
				for j, op := range c.Threads[i] {
					co.Threads[i] = append(co.Threads[i], doAPI(ctx, buf, op))
					if (i+j)%2 == 0 {
						runtime.Gosched()
					}
				}
			}(i)
		}
		close(start)
		if gated {
			select {
			case <-entered:
				time.Sleep(3 * time.Millisecond) // the other callers queue their requests behind the held kernel
			case <-time.After(time.Second):
			}
			gateArmed.Store(false)
			close(release)
		}
		wg.Wait()
		co.Final = fromTxs(buf.Buffered(ctx, nil))
	}
	return co
}

func main() {
	var in Input
	if err := json.NewDecoder(os.Stdin).Decode(&in); err != nil {
		fmt.Fprintln(os.Stderr, "bad input:", err)
		os.Exit(2)
	}
	var out Output
	for _, c := range in.Cases {
		out.Direct = append(out.Direct, runDirect(c))
		out.API = append(out.API, runAPI(c))
	}
	for _, c := range in.Conc {
		out.Conc = append(out.Conc, runAPI(c))
	}
	enc := json.NewEncoder(os.Stdout)
	if err := enc.Encode(out); err != nil {
		fmt.Fprintln(os.Stderr, "encode:", err)
		os.Exit(2)
	}
}
