// Harness for C13 (BLS aggregation tree): drives the REAL gblsminsig.SignatureProof (real blst keys,
// real signatures, genuine aggregates built by adding the leaves' signatures with blst) on operation
// sequences read from stdin (one JSON case per line) and prints one line of integers per operation
// (the projected observables), "C <i>" before each case.  999 = panic, 998 = unknown register.
//
// A case line {"big": n} instead runs the sparse round trip on a key set of n keys in which only the
// leaves 0 and 1 sign (the other keys are distinct valid points obtained by repeated addition).
package main

import (
	"bufio"
	"context"
	"encoding/json"
	"fmt"
	"os"
	"sort"
	"strings"

	"github.com/bits-and-blooms/bitset"
	"github.com/gordian-engine/gordian/gcrypto"
	"github.com/gordian-engine/gordian/gcrypto/gblsminsig"
	blst "github.com/supranational/blst/bindings/go"
)

type Sig struct {
	K int   `json:"k"` // 0 = aggregate of the genuine signatures of leaves L over message M, 1 = junk point, 2 = undecodable bytes
	M int   `json:"m"`
	L []int `json:"l"`
	V int   `json:"v"`
}

type Ent struct {
	ID  []int `json:"id"`
	Sig Sig   `json:"sig"`
}

type Op struct {
	Op   string `json:"op"`
	R    int    `json:"r"`
	O    int    `json:"o"`
	To   int    `json:"to"`
	N    int    `json:"n"`
	Msg  int    `json:"msg"`
	Hash int    `json:"hash"`
	Sig  Sig    `json:"sig"`
	Key  []int  `json:"key"` // [] = zero-value PubKey, [i] = key of leaf i, longer = the aggregated key
	Ents []Ent  `json:"ents"`
	ID   []int  `json:"id"`
}

type Case struct {
	Ops []Op `json:"ops"`
	Big int  `json:"big"`
}

var signers []gblsminsig.Signer
var pubs []gblsminsig.PubKey

func signer(i int) gblsminsig.Signer {
	for len(signers) <= i {
		ikm := []byte(fmt.Sprintf("verif-c13-tree-key-%04d-0123456789abcdef0123456789", len(signers)))
		s, err := gblsminsig.NewSigner(ikm)
		if err != nil {
			panic(err)
		}
		signers = append(signers, s)
		pubs = append(pubs, s.PubKey().(gblsminsig.PubKey))
	}
	return signers[i]
}

func pub(i int) gblsminsig.PubKey {
	signer(i)
	return pubs[i]
}

func msgBytes(m int) []byte { return []byte(fmt.Sprintf("verif-c13tree-msg-%d", m)) }
func hashStr(h int) string  { return fmt.Sprintf("kh%d", h) }

var sigCache = map[[2]int]blst.P1Affine{}

func leafSig(i, m int) blst.P1Affine {
	k := [2]int{i, m}
	if s, ok := sigCache[k]; ok {
		return s
	}
	b, err := signer(i).Sign(context.Background(), msgBytes(m))
	if err != nil {
		panic(err)
	}
	p := new(blst.P1Affine).Uncompress(b)
	sigCache[k] = *p
	return *p
}

// aggKey adds the public keys of the given leaves (independently of the tree code).
func aggKey(leaves []int) gblsminsig.PubKey {
	if len(leaves) == 0 {
		return gblsminsig.PubKey{}
	}
	acc := new(blst.P2)
	for _, i := range leaves {
		k := blst.P2Affine(pub(i))
		acc = acc.Add(&k)
	}
	return gblsminsig.PubKey(*acc.ToAffine())
}

func sigBytes(s Sig) []byte {
	switch s.K {
	case 0:
		acc := new(blst.P1)
		for _, i := range s.L {
			p := leafSig(i, s.M)
			acc = acc.Add(&p)
		}
		return acc.ToAffine().Compress()
	case 1:
		// a decodable point that is no aggregate over any of the case's messages
		b, _ := signer(s.V%7).Sign(context.Background(), []byte(fmt.Sprintf("verif-c13tree-junk-%d", s.V)))
		return b
	default:
		switch s.V % 5 {
		case 0:
			return nil
		case 1:
			return []byte{1, 2, 3}
		case 2:
			b := make([]byte, 48)
			for i := range b {
				b[i] = 0x11
			}
			return b
		case 3:
			return make([]byte, 47)
		default:
			b := make([]byte, 96)
			b[0] = 0x80
			return b
		}
	}
}

func idBytes(x []int) []byte {
	b := make([]byte, len(x))
	for i, v := range x {
		b[i] = byte(v)
	}
	return b
}

func bitsOf(p gblsminsig.SignatureProof) []int {
	var bs bitset.BitSet
	p.SignatureBitSet(&bs)
	var out []int
	for u, ok := bs.NextSet(0); ok; u, ok = bs.NextSet(u + 1) {
		out = append(out, int(u))
	}
	return out
}

func b2i(b bool) int {
	if b {
		return 1
	}
	return 0
}

func flags(r gcrypto.SignatureProofMergeResult, p gblsminsig.SignatureProof) []int {
	return append([]int{b2i(r.AllValidSignatures), b2i(r.IncreasedSignatures), b2i(r.WasStrictSuperset)}, bitsOf(p)...)
}

// realLeaves: the leaves < n below node id of the array layout with n keys (closed form, independent of tree.go).
func realLeaves(n, id int) []int {
	w := 1
	for w < n {
		w *= 2
	}
	start, width, nl := 0, w, 1
	for width >= 1 {
		if id < start+width {
			off := id - start
			var out []int
			for i := off * nl; i < off*nl+nl && i < n; i++ {
				out = append(out, i)
			}
			return out
		}
		start += width
		width /= 2
		nl *= 2
	}
	return nil
}

type reg struct {
	p   gblsminsig.SignatureProof
	n   int
	msg int
}

func runOp(regs map[int]*reg, o Op) (out []int) {
	defer func() {
		if r := recover(); r != nil {
			out = []int{999}
		}
	}()
	get := func(r int) *reg { return regs[r] }
	switch o.Op {
	case "new":
		keys := make([]gblsminsig.PubKey, o.N)
		for i := range keys {
			keys[i] = pub(i)
		}
		p, err := gblsminsig.NewSignatureProof(msgBytes(o.Msg), keys, hashStr(o.Hash))
		if err != nil {
			return []int{997}
		}
		regs[o.R] = &reg{p: p, n: o.N, msg: o.Msg}
		return []int{0}
	case "add":
		r := get(o.R)
		if r == nil {
			return []int{998}
		}
		err := r.p.AddSignature(sigBytes(o.Sig), aggKey(o.Key))
		code := 0
		if err != nil {
			switch {
			case strings.HasPrefix(err.Error(), "unknown key"):
				code = 1
			case strings.HasPrefix(err.Error(), "incoming signature differed"):
				code = 2
			case strings.HasPrefix(err.Error(), "signature verification failed"):
				code = 3
			default:
				code = 4
			}
		}
		return append([]int{code}, bitsOf(r.p)...)
	case "merge":
		r, q := get(o.R), get(o.O)
		if r == nil || q == nil {
			return []int{998}
		}
		return flags(r.p.Merge(q.p), r.p)
	case "msparse":
		r := get(o.R)
		if r == nil {
			return []int{998}
		}
		sp := gcrypto.SparseSignatureProof{PubKeyHash: hashStr(o.Hash)}
		for _, e := range o.Ents {
			sp.Signatures = append(sp.Signatures, gcrypto.SparseSignature{KeyID: idBytes(e.ID), Sig: sigBytes(e.Sig)})
		}
		return flags(r.p.MergeSparse(sp), r.p)
	case "mfrom":
		r, q := get(o.R), get(o.O)
		if r == nil || q == nil {
			return []int{998}
		}
		return flags(r.p.MergeSparse(q.p.AsSparse()), r.p)
	case "has":
		r := get(o.R)
		if r == nil {
			return []int{998}
		}
		h, v := r.p.HasSparseKeyID(idBytes(o.ID))
		return []int{b2i(h), b2i(v)}
	case "sparse":
		r := get(o.R)
		if r == nil {
			return []int{998}
		}
		sp := r.p.AsSparse()
		type pr struct{ id, ok int }
		var prs []pr
		for _, s := range sp.Signatures {
			id := 0
			if len(s.KeyID) == 2 {
				id = int(s.KeyID[0])*256 + int(s.KeyID[1])
			}
			lv := realLeaves(r.n, id)
			ok := len(lv) > 0 && aggKey(lv).Verify(msgBytes(r.msg), s.Sig)
			prs = append(prs, pr{id, b2i(ok)})
		}
		sort.SliceStable(prs, func(i, j int) bool { return prs[i].id < prs[j].id })
		out = []int{}
		for _, x := range prs {
			out = append(out, x.id, x.ok)
		}
		return out
	case "clone":
		r := get(o.R)
		if r == nil {
			return []int{998}
		}
		regs[o.To] = &reg{p: r.p.Clone().(gblsminsig.SignatureProof), n: r.n, msg: r.msg}
		return []int{0}
	case "derive":
		r := get(o.R)
		if r == nil {
			return []int{998}
		}
		regs[o.To] = &reg{p: r.p.Derive().(gblsminsig.SignatureProof), n: r.n, msg: r.msg}
		return []int{0}
	case "bits":
		r := get(o.R)
		if r == nil {
			return []int{998}
		}
		out = bitsOf(r.p)
		if out == nil {
			out = []int{}
		}
		return out
	}
	return []int{996}
}

// big: sparse round trip with n keys where leaves 0 and 1 sign.
// prints: ids of AsSparse | flags and bits of Derive().MergeSparse(AsSparse) | 999 on panic
func big(n int) (out []int) {
	defer func() {
		if r := recover(); r != nil {
			out = []int{999}
		}
	}()
	keys := make([]gblsminsig.PubKey, n)
	keys[0], keys[1] = pub(0), pub(1)
	step := blst.P2Affine(pub(2))
	acc := new(blst.P2).Add(&step)
	for i := 2; i < n; i++ {
		keys[i] = gblsminsig.PubKey(*acc.ToAffine())
		acc = acc.Add(&step)
	}
	p, err := gblsminsig.NewSignatureProof(msgBytes(0), keys, hashStr(0))
	if err != nil {
		return []int{997}
	}
	for i := 0; i < 2; i++ {
		s := leafSig(i, 0)
		if err := p.AddSignature(s.Compress(), keys[i]); err != nil {
			return []int{996}
		}
	}
	sp := p.AsSparse()
	for _, s := range sp.Signatures {
		id := -1
		if len(s.KeyID) == 2 {
			id = int(s.KeyID[0])*256 + int(s.KeyID[1])
		}
		out = append(out, id)
	}
	out = append(out, -1)
	q := p.Derive().(gblsminsig.SignatureProof)
	out = append(out, flags(q.MergeSparse(sp), q)...)
	return out
}

func main() {
	sc := bufio.NewScanner(os.Stdin)
	sc.Buffer(make([]byte, 1<<20), 1<<26)
	w := bufio.NewWriter(os.Stdout)
	defer w.Flush()
	ci := 0
	pr := func(xs []int) {
		ss := make([]string, len(xs))
		for i, x := range xs {
			ss[i] = fmt.Sprint(x)
		}
		fmt.Fprintln(w, strings.Join(ss, " "))
	}
	for sc.Scan() {
		line := strings.TrimSpace(sc.Text())
		if line == "" {
			continue
		}
		var c Case
		if err := json.Unmarshal([]byte(line), &c); err != nil {
			fmt.Fprintln(os.Stderr, "bad case:", err)
			os.Exit(2)
		}
		fmt.Fprintf(w, "C %d\n", ci)
		ci++
		if c.Big > 0 {
			pr(big(c.Big))
			continue
		}
		regs := map[int]*reg{}
		for _, o := range c.Ops {
			pr(runOp(regs, o))
		}
	}
}
