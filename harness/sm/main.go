// Harness for C08 / C02 / C12(a): drives the REAL tmstate.StateMachine (through the
// //go:build verif hooks in tm/tmengine and tm/tmengine/internal/tmstate) with
//   - a harness-controlled consensus strategy (Consider/Choose/Decide calls are HELD until an
//     "answer" event releases them; EnterRound answers at once),
//   - a recording signer wrapper around a real ed25519 signer,
//   - a recording RoundTimer whose timers elapse only on a "timer" event,
//   - recording wrappers around the real in-memory action / finalization / state-machine stores,
//   - a scripted mirror + driver on the other end of the channels.
//
// Input (stdin): lines of decimal numbers. "0 <id> <signer>" starts a trace (fresh stores);
// every other line is one event (encoding shared with coq/Model/SMWire.v). After every event the
// harness waits for quiescence WITHOUT sleeping (see settle) and prints one line
//
//	"O <state-machine goroutine items> | <consensus-manager goroutine items>"
//
// where every item is a list of numbers, items separated by ';'.
// A panic of the state machine goroutine kills the process; the driver (checks/sm_common.py)
// reads the panic message from stderr and restarts the harness at the next trace.
package main

import (
	"bufio"
	"bytes"
	"context"
	"errors"
	"fmt"
	"io"
	"log/slog"
	"os"
	"strconv"
	"strings"
	"sync"
	"time"

	"github.com/gordian-engine/gordian/gcrypto"
	"github.com/gordian-engine/gordian/gwatchdog"
	"github.com/gordian-engine/gordian/tm/tmconsensus"
	"github.com/gordian-engine/gordian/tm/tmconsensus/tmconsensustest"
	"github.com/gordian-engine/gordian/tm/tmdriver"
	"github.com/gordian-engine/gordian/tm/tmengine"
	"github.com/gordian-engine/gordian/tm/tmengine/tmelink"
	"github.com/gordian-engine/gordian/tm/tmstore"
	"github.com/gordian-engine/gordian/tm/tmstore/tmmemstore"
)

const nVals = 4
const flushRounds = 48 // barrier hand-offs after an event that only makes a channel ready
// VERIF_SM_PATIENT (set for the re-run of a suspect history): much longer waits, so that a loaded machine is not
// mistaken for a blocked kernel and a panicking process has died before the next event is delivered.
var watchdog = 4 * time.Second
var haltGrace = 30 * time.Millisecond

func init() {
	if os.Getenv("VERIF_SM_PATIENT") != "" {
		watchdog = 30 * time.Second
		haltGrace = 700 * time.Millisecond
	}
}

// ---------------------------------------------------------------- output items (see SMWire.v)
const (
	oRoundEntrance = 1
	oEnterRound    = 2
	oConsider      = 3
	oChoose        = 4
	oDecide        = 5
	oSignPrevote   = 6
	oSignPrecommit = 7
	oSignProposal  = 8
	oSavePrevote   = 9
	oSavePrecommit = 10
	oSavePH        = 11
	oEmitPrevote   = 12
	oEmitPrecommit = 13
	oEmitPH        = 14
	oFinalizeReq   = 15
	oTimerStart    = 16
	oTimerCancel   = 17
	oSetHR         = 18
	oSaveFin       = 19
	oPanic         = 20
	oHalt          = 21
	oUndeliverable = 22
	oBlocked       = 23
)

type recorder struct {
	mu  sync.Mutex
	sm  [][]uint64
	cm  [][]uint64
	fin [][]uint64 // finalize requests: recorded by the harness goroutine when it receives them
}

func (r *recorder) SM(xs ...uint64) {
	r.mu.Lock()
	r.sm = append(r.sm, xs)
	r.mu.Unlock()
}
func (r *recorder) CM(xs ...uint64) {
	r.mu.Lock()
	r.cm = append(r.cm, xs)
	r.mu.Unlock()
}
func fmtItems(it [][]uint64) string {
	var parts []string
	for _, x := range it {
		var ns []string
		for _, n := range x {
			ns = append(ns, strconv.FormatUint(n, 10))
		}
		parts = append(parts, strings.Join(ns, " "))
	}
	return strings.Join(parts, ";")
}

// ---------------------------------------------------------------- fixtures
type world struct {
	fx      *tmconsensustest.Fixture
	valsets map[uint64]tmconsensus.ValidatorSet
	signer  tmconsensus.Signer
}

func hashOf(id uint64) []byte {
	if id == 0 {
		return nil
	}
	return []byte{byte(id)}
}
func idOf(b []byte) uint64 {
	switch len(b) {
	case 0:
		return 0
	case 1:
		return uint64(b[0])
	}
	return 255
}

func newWorld() *world {
	fx := tmconsensustest.NewEd25519Fixture(nVals)
	w := &world{fx: fx, valsets: map[uint64]tmconsensus.ValidatorSet{}}
	all := fx.Vals()
	for mask := uint64(1); mask < 1<<nVals; mask++ {
		var vs []tmconsensus.Validator
		for i := 0; i < nVals; i++ {
			if mask&(1<<i) != 0 {
				vs = append(vs, all[i])
			}
		}
		s, err := tmconsensus.NewValidatorSet(vs, fx.HashScheme)
		if err != nil {
			panic(err)
		}
		w.valsets[mask] = s
		// mask + 16: the SAME keys in the same order with another power for the first member (equal PubKeyHash,
		// different VotePowerHash): a header whose validator list was altered in the powers only
		vs2 := append([]tmconsensus.Validator(nil), vs...)
		vs2[0].Power += 7
		s2, err := tmconsensus.NewValidatorSet(vs2, fx.HashScheme)
		if err != nil {
			panic(err)
		}
		w.valsets[mask+16] = s2
	}
	w.signer = tmconsensus.PassthroughSigner{Signer: fx.PrivVals[0].Signer, SignatureScheme: fx.SignatureScheme}
	return w
}
func (w *world) valset(mask uint64) tmconsensus.ValidatorSet {
	if mask == 0 {
		return tmconsensus.ValidatorSet{}
	}
	return w.valsets[mask&(1<<(nVals+1)-1)]
}
func (w *world) maskOf(vs tmconsensus.ValidatorSet) uint64 {
	if len(vs.Validators) == 0 {
		return 0
	}
	for m, s := range w.valsets {
		if s.Equal(vs) {
			return m
		}
	}
	return 99
}

// ---------------------------------------------------------------- recording wrappers
type recSigner struct {
	in  tmconsensus.Signer
	rec *recorder
}

func (s recSigner) Prevote(ctx context.Context, vt tmconsensus.VoteTarget) ([]byte, []byte, error) {
	s.rec.SM(oSignPrevote, vt.Height, uint64(vt.Round), idOf([]byte(vt.BlockHash)))
	return s.in.Prevote(ctx, vt)
}
func (s recSigner) Precommit(ctx context.Context, vt tmconsensus.VoteTarget) ([]byte, []byte, error) {
	s.rec.SM(oSignPrecommit, vt.Height, uint64(vt.Round), idOf([]byte(vt.BlockHash)))
	return s.in.Precommit(ctx, vt)
}
func (s recSigner) SignProposedHeader(ctx context.Context, ph *tmconsensus.ProposedHeader) error {
	s.rec.SM(oSignProposal, ph.Header.Height, uint64(ph.Round), idOf(ph.Header.DataID))
	return s.in.SignProposedHeader(ctx, ph)
}
func (s recSigner) PubKey() gcrypto.PubKey { return s.in.PubKey() }

func errCode(err error) uint64 {
	if err == nil {
		return 0
	}
	var d tmstore.DoubleActionError
	if errors.As(err, &d) {
		return 1
	}
	var k tmstore.PubKeyChangedError
	if errors.As(err, &k) {
		return 2
	}
	var f tmstore.FinalizationOverwriteError
	if errors.As(err, &f) {
		return 3
	}
	return 9
}

type recActionStore struct {
	in  *tmmemstore.ActionStore
	rec *recorder
	h   *harness
}

func (s recActionStore) SaveProposedHeaderAction(ctx context.Context, ph tmconsensus.ProposedHeader) error {
	err := s.in.SaveProposedHeaderAction(ctx, ph)
	s.rec.SM(oSavePH, ph.Header.Height, uint64(ph.Round), errCode(err), s.h.pendingEmits())
	return err
}
func (s recActionStore) SavePrevoteAction(ctx context.Context, pk gcrypto.PubKey, vt tmconsensus.VoteTarget, sig []byte) error {
	err := s.in.SavePrevoteAction(ctx, pk, vt, sig)
	s.rec.SM(oSavePrevote, vt.Height, uint64(vt.Round), idOf([]byte(vt.BlockHash)), errCode(err), s.h.pendingEmits())
	return err
}
func (s recActionStore) SavePrecommitAction(ctx context.Context, pk gcrypto.PubKey, vt tmconsensus.VoteTarget, sig []byte) error {
	err := s.in.SavePrecommitAction(ctx, pk, vt, sig)
	s.rec.SM(oSavePrecommit, vt.Height, uint64(vt.Round), idOf([]byte(vt.BlockHash)), errCode(err), s.h.pendingEmits())
	return err
}
func (s recActionStore) LoadActions(ctx context.Context, h uint64, r uint32) (tmstore.RoundActions, error) {
	return s.in.LoadActions(ctx, h, r)
}

type recFinStore struct {
	in  *tmmemstore.FinalizationStore
	rec *recorder
	w   *world
}

func (s recFinStore) SaveFinalization(ctx context.Context, h uint64, r uint32, bh string, vs tmconsensus.ValidatorSet, ash string) error {
	err := s.in.SaveFinalization(ctx, h, r, bh, vs, ash)
	s.rec.SM(oSaveFin, h, uint64(r), idOf([]byte(bh)), s.w.maskOf(vs), idOf([]byte(ash)), errCode(err))
	return err
}
func (s recFinStore) LoadFinalizationByHeight(ctx context.Context, h uint64) (uint32, string, tmconsensus.ValidatorSet, string, error) {
	return s.in.LoadFinalizationByHeight(ctx, h)
}

type recSMStore struct {
	in  *tmmemstore.StateMachineStore
	rec *recorder
}

func (s recSMStore) SetStateMachineHeightRound(ctx context.Context, h uint64, r uint32) error {
	s.rec.SM(oSetHR, h, uint64(r))
	return s.in.SetStateMachineHeightRound(ctx, h, r)
}
func (s recSMStore) StateMachineHeightRound(ctx context.Context) (uint64, uint32, error) {
	return s.in.StateMachineHeightRound(ctx)
}

// ---------------------------------------------------------------- timer
type recTimer struct {
	rec    *recorder
	mu     sync.Mutex
	active *oneTimer
	cancel chan struct{} // signalled (non-blocking) on every cancel call
	// the most recent timer that was cancelled before it elapsed and whose channel is still open: the "stale
	// elapse" pseudo-event closes it (a timer that fired concurrently with its cancellation)
	lastCancelled *oneTimer
}
type oneTimer struct {
	kind, h, r uint64
	ch         chan struct{}
	done       bool // elapsed or cancelled
}

func (t *recTimer) mk(kind uint64, h uint64, r uint32) (<-chan struct{}, func()) {
	t.mu.Lock()
	defer t.mu.Unlock()
	overlap := uint64(0)
	if t.active != nil && !t.active.done {
		overlap = 1
	}
	ot := &oneTimer{kind: kind, h: h, r: uint64(r), ch: make(chan struct{})}
	t.active = ot
	t.rec.SM(oTimerStart, kind, h, uint64(r), overlap)
	return ot.ch, func() {
		t.mu.Lock()
		was := uint64(0)
		if !ot.done {
			was = 1
			ot.done = true
			t.lastCancelled = ot
		}
		t.mu.Unlock()
		t.rec.SM(oTimerCancel, ot.kind, ot.h, ot.r, was)
		select {
		case t.cancel <- struct{}{}:
		default:
		}
	}
}
func (t *recTimer) ProposalTimer(_ context.Context, h uint64, r uint32) (<-chan struct{}, func()) {
	return t.mk(1, h, r)
}
func (t *recTimer) PrevoteDelayTimer(_ context.Context, h uint64, r uint32) (<-chan struct{}, func()) {
	return t.mk(2, h, r)
}
func (t *recTimer) PrecommitDelayTimer(_ context.Context, h uint64, r uint32) (<-chan struct{}, func()) {
	return t.mk(3, h, r)
}
func (t *recTimer) CommitWaitTimer(_ context.Context, h uint64, r uint32) (<-chan struct{}, func()) {
	return t.mk(4, h, r)
}

// ---------------------------------------------------------------- strategy
type answer struct {
	kind uint64 // 0 hash, 1 not ready, 2 error
	hash uint64
}
type heldCall struct {
	kind    uint64
	release chan answer
}
type strat struct {
	rec      *recorder
	mu       sync.Mutex
	propOut  chan<- tmconsensus.Proposal // of the latest real EnterRound call
	enterErr bool
	calls    chan *heldCall
}

func phHashes(phs []tmconsensus.ProposedHeader) []uint64 {
	out := []uint64{uint64(len(phs))}
	for _, ph := range phs {
		out = append(out, idOf(ph.Header.Hash))
	}
	return out
}
func strIDs(ss []string) []uint64 {
	out := []uint64{uint64(len(ss))}
	for _, s := range ss {
		out = append(out, idOf([]byte(s)))
	}
	return out
}

func (s *strat) EnterRound(ctx context.Context, rv tmconsensus.RoundView, proposalOut chan<- tmconsensus.Proposal) error {
	if rv.Height == 0 {
		return nil // idle probe of the harness
	}
	s.mu.Lock()
	s.propOut = proposalOut
	e := s.enterErr
	s.enterErr = false
	s.mu.Unlock()
	has := uint64(0)
	if proposalOut != nil {
		has = 1
	}
	s.rec.CM(oEnterRound, rv.Height, uint64(rv.Round), has)
	if e {
		return errors.New("harness: EnterRound error")
	}
	return nil
}
func (s *strat) hold(ctx context.Context, kind uint64) (string, error) {
	c := &heldCall{kind: kind, release: make(chan answer, 1)}
	s.calls <- c
	select {
	case a := <-c.release:
		switch a.kind {
		case 0:
			return string(hashOf(a.hash)), nil
		case 1:
			if kind == oConsider {
				return "", tmconsensus.ErrProposedBlockChoiceNotReady
			}
			return "", errors.New("harness: not-ready answer to a call that cannot wait")
		}
		return "", errors.New("harness: strategy error")
	case <-ctx.Done():
		return "", ctx.Err()
	}
}
func (s *strat) ConsiderProposedBlocks(ctx context.Context, phs []tmconsensus.ProposedHeader, reason tmconsensus.ConsiderProposedBlocksReason) (string, error) {
	it := []uint64{oConsider}
	it = append(it, phHashes(phs)...)
	it = append(it, strIDs(reason.NewProposedBlocks)...)
	it = append(it, strIDs(reason.UpdatedBlockDataIDs)...)
	if reason.MajorityVotingPowerPresent {
		it = append(it, 1)
	} else {
		it = append(it, 0)
	}
	s.rec.CM(it...)
	return s.hold(ctx, oConsider)
}
func (s *strat) ChooseProposedBlock(ctx context.Context, phs []tmconsensus.ProposedHeader) (string, error) {
	it := append([]uint64{oChoose}, phHashes(phs)...)
	s.rec.CM(it...)
	return s.hold(ctx, oChoose)
}
func (s *strat) DecidePrecommit(ctx context.Context, vs tmconsensus.VoteSummary) (string, error) {
	s.rec.CM(oDecide, vs.AvailablePower, vs.TotalPrevotePower, vs.TotalPrecommitPower,
		idOf([]byte(vs.MostVotedPrevoteHash)), vs.PrevoteBlockPower[vs.MostVotedPrevoteHash],
		idOf([]byte(vs.MostVotedPrecommitHash)), vs.PrecommitBlockPower[vs.MostVotedPrecommitHash])
	return s.hold(ctx, oDecide)
}

// ---------------------------------------------------------------- the harness proper
type entrance struct {
	h, r    uint64
	actions chan tmengine.VerifSMRoundAction
}

type harness struct {
	w   *world
	rec *recorder

	hasSigner bool
	aStore    *tmmemstore.ActionStore
	fStore    *tmmemstore.FinalizationStore
	sStore    *tmmemstore.StateMachineStore

	// per process lifetime of the state machine
	sm       *tmengine.VerifStateMachine
	cancel   context.CancelFunc
	wd       *gwatchdog.Watchdog
	viewCh   chan tmengine.VerifSMRoundView
	reCh     chan tmengine.VerifSMRoundEntrance
	finCh    chan tmdriver.FinalizeBlockRequest
	bdaCh    chan tmelink.BlockDataArrival
	st       *strat
	tm       *recTimer
	running  bool // constructed and kernel not known to have returned
	halted   bool
	liveLoop bool // a barrier has been accepted in this lifetime: the kernel is in handleLiveEvent for good
	pendRE   *tmengine.VerifSMRoundEntrance
	ents     []*entrance
	lastFin  *tmdriver.FinalizeBlockRequest
	held     *heldCall
	hc       chan<- struct{} // HeightCommitted of the latest entrance, nil once closed
}

func (h *harness) pendingEmits() uint64 {
	// called from the state machine goroutine inside a store Save: how many actions are already
	// sitting in the outgoing channel of the current round (save-before-emit observation)
	if len(h.ents) == 0 {
		return 0
	}
	e := h.ents[len(h.ents)-1]
	if e.actions == nil {
		return 0
	}
	return uint64(len(e.actions))
}

func (h *harness) genesis() tmconsensus.Genesis {
	return tmconsensus.Genesis{
		ChainID:             "verif-sm",
		InitialHeight:       1,
		CurrentAppStateHash: hashOf(1),
		ValidatorSet:        h.w.valset(15),
	}
}

func (h *harness) start() {
	ctx, cancel := context.WithCancel(context.Background())
	log := slog.New(slog.NewTextHandler(io.Discard, nil))
	wd, wctx := gwatchdog.NewNopWatchdog(ctx, log)
	h.cancel, h.wd = cancel, wd
	h.viewCh = make(chan tmengine.VerifSMRoundView)
	h.reCh = make(chan tmengine.VerifSMRoundEntrance)
	h.finCh = make(chan tmdriver.FinalizeBlockRequest)
	h.bdaCh = make(chan tmelink.BlockDataArrival)
	h.st = &strat{rec: h.rec, calls: make(chan *heldCall, 4)}
	h.tm = &recTimer{rec: h.rec, cancel: make(chan struct{}, 1)}
	h.pendRE, h.lastFin, h.held, h.hc = nil, nil, nil, nil
	h.ents = nil
	h.halted, h.liveLoop = false, false
	cfg := tmengine.VerifStateMachineConfig{
		HashScheme:                        h.w.fx.HashScheme,
		SignatureScheme:                   h.w.fx.SignatureScheme,
		CommonMessageSignatureProofScheme: h.w.fx.CommonMessageSignatureProofScheme,
		Genesis:                           h.genesis(),
		ActionStore:                       recActionStore{in: h.aStore, rec: h.rec, h: h},
		FinalizationStore:                 recFinStore{in: h.fStore, rec: h.rec, w: h.w},
		StateMachineStore:                 recSMStore{in: h.sStore, rec: h.rec},
		RoundTimer:                        h.tm,
		ConsensusStrategy:                 h.st,
		RoundViewInCh:                     h.viewCh,
		RoundEntranceOutCh:                h.reCh,
		BlockDataArrivalCh:                h.bdaCh,
		FinalizeBlockRequestCh:            h.finCh,
		Watchdog:                          wd,
	}
	if h.hasSigner {
		cfg.Signer = recSigner{in: h.w.signer, rec: h.rec}
	}
	sm, err := tmengine.VerifNewStateMachine(wctx, log, cfg)
	if err != nil {
		panic(err)
	}
	h.sm = sm
	h.running = true
}

func (h *harness) stop() {
	h.cancel()
	h.sm.Wait()
	h.wd.Wait()
	h.running = false
	h.sm = nil
}

func die(msg string) {
	fmt.Fprintln(os.Stderr, "HARNESS-FATAL: "+msg)
	os.Exit(3)
}

func (h *harness) noteRE(re tmengine.VerifSMRoundEntrance) {
	pk, act := uint64(0), uint64(0)
	if re.PubKey != nil {
		pk = 1
	}
	if re.Actions != nil {
		act = 1
	}
	h.rec.SM(oRoundEntrance, re.H, uint64(re.R), pk, act)
	h.pendRE = &re
	h.ents = append(h.ents, &entrance{h: re.H, r: uint64(re.R), actions: re.Actions})
	h.hc = re.HeightCommitted
}

func (h *harness) noteFin(req tmdriver.FinalizeBlockRequest) {
	h.rec.mu.Lock()
	h.rec.fin = append(h.rec.fin, []uint64{oFinalizeReq, req.Header.Height, uint64(req.Round), idOf(req.Header.Hash)})
	h.rec.mu.Unlock()
	h.lastFin = &req
}

// settleSM waits until the state machine goroutine is blocked on the harness (round entrance
// pending), has returned, or is idle in the select of handleLiveEvent (barrier accepted).
// stopAfterFin: used after a committed-header response while the kernel may be in
// handleCatchupEvent (which reads nothing but the finalization response): return as soon as the
// finalize request was received.
// It returns false if the kernel did not become quiet (blocked).
func (h *harness) settleSM(stopAfterFin bool, flush int, consumed func() bool) bool {
	for {
		if h.pendRE != nil || h.halted {
			return true
		}
		select {
		case re := <-h.reCh:
			h.noteRE(re)
			return true
		case req := <-h.finCh:
			h.noteFin(req)
			if stopAfterFin {
				return true
			}
		case <-h.sm.VerifKernelDone():
			// The kernel goroutine is gone: it returned, or it is panicking (the deferred close of
			// kernelDone runs first, then the runtime prints the panic and kills the process). Give
			// a dying process time to die so that no later event is attributed to a dead machine;
			// the driver additionally treats the last HALT of a process that died as the panic.
			time.Sleep(haltGrace)
			h.rec.SM(oHalt)
			h.halted = true
			return true
		case h.bdaCh <- tmelink.BlockDataArrival{}:
			h.liveLoop = true
			if flush <= 0 || (consumed != nil && consumed()) {
				return true
			}
			flush--
		case <-time.After(watchdog):
			return false
		}
	}
}

// settleCM waits until the consensus manager goroutine is idle or inside a held strategy call.
func (h *harness) settleCM() bool {
	if h.held != nil {
		return true // it is blocked in our strategy; it cannot have taken anything new
	}
	if h.halted {
		// the kernel has returned; if that was a context cancellation the consensus manager is gone too
		select {
		case c := <-h.st.calls:
			h.held = c
		default:
		}
		return true
	}
	probe := tmengine.VerifSMEnterRoundRequest{Result: make(chan error, 1)}
	select {
	case c := <-h.st.calls:
		h.held = c
		return true
	case h.sm.VerifEnterRoundRequests() <- probe:
		<-probe.Result
		// a call may have been recorded just before the probe was taken? No: the probe is taken
		// only from the idle select, and a call blocks the goroutine until released.
		select {
		case c := <-h.st.calls:
			h.held = c
		default:
		}
		return true
	case <-h.sm.VerifKernelDone():
		// the context was cancelled from inside (watchdog Terminate): both goroutines are gone
		time.Sleep(haltGrace)
		h.rec.SM(oHalt)
		h.halted = true
		return true
	case <-time.After(watchdog):
		return false
	}
}

func (h *harness) settle(stopAfterFin bool, flush int, consumed func() bool) {
	ok := h.settleSM(stopAfterFin, flush, consumed)
	if ok {
		ok = h.settleCM()
		// a request may have been handed over / an answer forwarded: settle the kernel again
		// (not in the catch-up loop, where the kernel reads nothing but the finalization response)
		if ok && !stopAfterFin {
			ok = h.settleSM(false, 0, nil)
		}
	}
	if !ok {
		h.rec.SM(oBlocked)
		h.emit()
		die("blocked")
	}
}

func (h *harness) drainActions() {
	for _, e := range h.ents {
		if e.actions == nil {
			continue
		}
		for {
			select {
			case a := <-e.actions:
				switch {
				case a.PH.Header.Height != 0 || len(a.PH.Signature) > 0:
					ok := uint64(0)
					if b, err := tmconsensus.ProposalSignBytes(a.PH.Header, a.PH.Round, a.PH.Annotations, h.w.fx.SignatureScheme); err == nil &&
						h.w.signer.PubKey().Verify(b, a.PH.Signature) && a.PH.Header.Height == e.h && uint64(a.PH.Round) == e.r {
						ok = 1
					}
					h.rec.SM(oEmitPH, e.h, e.r, idOf(a.PH.Header.DataID), ok)
				case len(a.Prevote.Sig) > 0:
					vt := tmconsensus.VoteTarget{Height: e.h, Round: uint32(e.r), BlockHash: a.Prevote.TargetHash}
					b, err := tmconsensus.PrevoteSignBytes(vt, h.w.fx.SignatureScheme)
					ok := uint64(0)
					if err == nil && bytes.Equal(b, a.Prevote.SignContent) && h.w.signer.PubKey().Verify(b, a.Prevote.Sig) {
						ok = 1
					}
					h.rec.SM(oEmitPrevote, e.h, e.r, idOf([]byte(a.Prevote.TargetHash)), ok)
				case len(a.Precommit.Sig) > 0:
					vt := tmconsensus.VoteTarget{Height: e.h, Round: uint32(e.r), BlockHash: a.Precommit.TargetHash}
					b, err := tmconsensus.PrecommitSignBytes(vt, h.w.fx.SignatureScheme)
					ok := uint64(0)
					if err == nil && bytes.Equal(b, a.Precommit.SignContent) && h.w.signer.PubKey().Verify(b, a.Precommit.Sig) {
						ok = 1
					}
					h.rec.SM(oEmitPrecommit, e.h, e.r, idOf([]byte(a.Precommit.TargetHash)), ok)
				default:
					h.rec.SM(oEmitPH, e.h, e.r, 254, 0) // an empty action
				}
				continue
			default:
			}
			break
		}
	}
}

var out = bufio.NewWriter(os.Stdout)

func (h *harness) emit() {
	h.rec.mu.Lock()
	h.rec.sm = append(h.rec.sm, h.rec.fin...)
	h.rec.fin = nil
	h.rec.mu.Unlock()
	if h.running {
		h.drainActions()
	}
	h.rec.mu.Lock()
	fmt.Fprintf(out, "O %s | %s\n", fmtItems(h.rec.sm), fmtItems(h.rec.cm))
	h.rec.sm, h.rec.cm = nil, nil
	h.rec.mu.Unlock()
	out.Flush()
}

func (h *harness) undeliverable() { h.rec.SM(oUndeliverable) }

// idle reports whether the kernel is known to be idle in the select of handleLiveEvent.
func (h *harness) idleLive() bool {
	return h.running && !h.halted && h.pendRE == nil && h.liveLoop
}

// ---------------------------------------------------------------- decoding of views
type rd struct {
	xs []uint64
	i  int
}

func (r *rd) n() uint64 {
	if r.i >= len(r.xs) {
		die("short event line")
	}
	v := r.xs[r.i]
	r.i++
	return v
}

func (h *harness) readView(r *rd) tmconsensus.VersionedRoundView {
	var v tmconsensus.VersionedRoundView
	v.Height = r.n()
	v.Round = uint32(r.n())
	v.Version = uint32(r.n())
	vs := tmconsensus.NewVoteSummary()
	vs.AvailablePower = r.n()
	vs.TotalPrevotePower = r.n()
	vs.TotalPrecommitPower = r.n()
	vs.MostVotedPrevoteHash = string(hashOf(r.n()))
	vs.MostVotedPrecommitHash = string(hashOf(r.n()))
	for k := r.n(); k > 0; k-- {
		hh := string(hashOf(r.n()))
		vs.PrevoteBlockPower[hh] = r.n()
	}
	for k := r.n(); k > 0; k-- {
		hh := string(hashOf(r.n()))
		vs.PrecommitBlockPower[hh] = r.n()
	}
	v.VoteSummary = vs
	v.ValidatorSet = h.w.valset(15)
	nph := r.n()
	for k := uint64(0); k < nph; k++ {
		var ph tmconsensus.ProposedHeader
		ph.Header.Hash = hashOf(r.n())
		ph.Header.Height = v.Height
		ph.Header.PrevAppStateHash = hashOf(r.n())
		ph.Header.ValidatorSet = h.w.valset(r.n())
		ph.Header.NextValidatorSet = h.w.valset(r.n())
		ph.Header.DataID = hashOf(r.n())
		ph.Round = v.Round
		if r.n() == 1 {
			ph.ProposerPubKey = h.w.signer.PubKey()
		} else {
			ph.ProposerPubKey = h.w.fx.PrivVals[1].Val.PubKey
		}
		v.ProposedHeaders = append(v.ProposedHeaders, ph)
	}
	// previous commit proof: hash id, validator-set mask (0 = empty proof)
	pcpHash, pcpVS := r.n(), r.n()
	v.PrevCommitProof = tmconsensus.CommitProof{Proofs: map[string][]gcrypto.SparseSignature{}}
	if pcpVS != 0 && v.Height > 1 {
		set := h.w.valset(pcpVS)
		pkh, err := h.w.fx.HashScheme.PubKeys(set.PubKeys)
		if err != nil {
			panic(err)
		}
		vt := tmconsensus.VoteTarget{Height: v.Height - 1, Round: 0, BlockHash: string(hashOf(pcpHash))}
		content, err := tmconsensus.PrecommitSignBytes(vt, h.w.fx.SignatureScheme)
		if err != nil {
			panic(err)
		}
		proof, err := h.w.fx.CommonMessageSignatureProofScheme.New(content, set.PubKeys, string(pkh))
		if err != nil {
			panic(err)
		}
		for i := 0; i < nVals; i++ {
			if pcpVS&(1<<i) == 0 {
				continue
			}
			sig, err := h.w.fx.PrivVals[i].Signer.Sign(context.Background(), content)
			if err != nil {
				panic(err)
			}
			if err := proof.AddSignature(sig, h.w.fx.PrivVals[i].Val.PubKey); err != nil {
				panic(err)
			}
		}
		v.PrevCommitProof.PubKeyHash = string(pkh)
		v.PrevCommitProof.Proofs[vt.BlockHash] = proof.AsSparse().Signatures
	}
	return v
}

// ---------------------------------------------------------------- events
func (h *harness) event(xs []uint64) {
	r := &rd{xs: xs}
	tag := r.n()
	switch tag {
	case 1: // start
		if h.running {
			h.undeliverable()
			break
		}
		h.start()
		h.settle(false, 0, nil)
	case 2: // stop
		if !h.running {
			h.undeliverable()
			break
		}
		h.stop()
	case 3: // round entrance response: view
		v := h.readView(r)
		if !h.running || h.pendRE == nil || h.held != nil {
			h.undeliverable()
			break
		}
		re := h.pendRE
		h.pendRE = nil
		re.Response <- tmengine.VerifSMRoundEntranceResp{VRV: v}
		h.settle(false, 0, nil)
	case 4: // round entrance response: committed header
		hash, height, pround := r.n(), r.n(), r.n()
		if !h.running || h.pendRE == nil {
			h.undeliverable()
			break
		}
		re := h.pendRE
		h.pendRE = nil
		var resp tmengine.VerifSMRoundEntranceResp
		resp.CH.Header.Height = height
		resp.CH.Header.Hash = hashOf(hash)
		resp.CH.Proof.Round = uint32(pround)
		re.Response <- resp
		h.settle(!h.liveLoop, 0, nil)
	case 5, 6, 7: // view update (5: view + optional jump-ahead; 6: jump-ahead only; 7: empty)
		var sv tmengine.VerifSMRoundView
		if tag == 5 {
			sv.VRV = h.readView(r)
		}
		if tag == 5 || tag == 6 {
			jh, jr := r.n(), r.n()
			if jh != 0 {
				ja := tmconsensus.VersionedRoundView{}
				ja.Height, ja.Round = jh, uint32(jr)
				sv.JumpAheadRoundView = &ja
			}
		}
		if !h.idleLive() {
			h.undeliverable()
			break
		}
		select {
		case h.viewCh <- sv:
		case <-time.After(watchdog):
			h.rec.SM(oBlocked)
			h.emit()
			die("view not accepted")
		}
		h.settle(false, 0, nil)
	case 8: // the outstanding timer elapses
		if !h.idleLive() {
			h.undeliverable()
			break
		}
		h.tm.mu.Lock()
		t := h.tm.active
		ok := t != nil && !t.done
		if ok {
			t.done = true
		}
		h.tm.mu.Unlock()
		if !ok {
			h.undeliverable()
			break
		}
		select {
		case <-h.tm.cancel:
		default:
		}
		close(t.ch)
		seen := false
		h.settle(false, flushRounds, func() bool {
			select {
			case <-h.tm.cancel:
				seen = true
			default:
			}
			return seen
		})
	case 30: // stale elapse (not an event of the model): the channel of a timer that was CANCELLED is closed now, as if
		// the timer had fired concurrently with the cancellation and the kernel's select had taken the other branch.
		// A state machine that listens to its step timer only while it believes in one shows no reaction at all.
		if !h.idleLive() {
			h.undeliverable()
			break
		}
		h.tm.mu.Lock()
		t := h.tm.lastCancelled
		h.tm.lastCancelled = nil
		h.tm.mu.Unlock()
		if t == nil {
			h.undeliverable()
			break
		}
		close(t.ch)
		h.settle(false, 6, nil)
	case 9: // release the held strategy call
		kind, hash := r.n(), r.n()
		if !h.running || h.held == nil {
			h.undeliverable()
			break
		}
		c := h.held
		h.held = nil
		c.release <- answer{kind: kind, hash: hash}
		// first the consensus manager must have forwarded the answer, then the kernel is flushed
		if !h.settleCM() {
			h.rec.SM(oBlocked)
			h.emit()
			die("cm blocked after answer")
		}
		h.settle(false, flushRounds, nil)
	case 10: // the strategy publishes a proposal on the channel of its latest EnterRound
		data := r.n()
		var po chan<- tmconsensus.Proposal
		if h.running {
			h.st.mu.Lock()
			po = h.st.propOut
			h.st.mu.Unlock()
		}
		if po == nil || !h.idleLive() {
			h.undeliverable()
			break
		}
		select {
		case po <- tmconsensus.Proposal{DataID: string(hashOf(data))}:
			h.settle(false, flushRounds, func() bool { return len(po) == 0 })
		default:
			h.undeliverable()
		}
	case 11: // finalization response on the latest finalize request
		fh, fr, bh, vs, ash := r.n(), r.n(), r.n(), r.n(), r.n()
		if !h.running || h.halted || h.lastFin == nil || h.pendRE != nil {
			h.undeliverable()
			break
		}
		req := h.lastFin
		h.lastFin = nil
		req.Resp <- tmdriver.FinalizeBlockResponse{
			Height: fh, Round: uint32(fr), BlockHash: hashOf(bh),
			Validators: h.w.valset(vs).Validators, AppStateHash: hashOf(ash),
		}
		// (in the catch-up loop the barrier is never accepted: the response is always consumed and
		// ends in a round entrance, a halt or a panic)
		h.settle(false, flushRounds, func() bool { return len(req.Resp) == 0 })
	case 12: // height committed signal
		if !h.idleLive() || h.hc == nil {
			h.undeliverable()
			break
		}
		close(h.hc)
		h.hc = nil
		h.settle(false, flushRounds, nil)
	case 13: // block data arrival
		bh, br, id := r.n(), r.n(), r.n()
		if !h.idleLive() || bh == 0 {
			h.undeliverable()
			break
		}
		select {
		case h.bdaCh <- tmelink.BlockDataArrival{Height: bh, Round: uint32(br), ID: string(hashOf(id))}:
		case <-time.After(watchdog):
			h.rec.SM(oBlocked)
			h.emit()
			die("block data not accepted")
		}
		h.settle(false, 0, nil)
	case 14: // arm: the next EnterRound call returns an error
		if !h.running {
			h.undeliverable()
			break
		}
		h.st.mu.Lock()
		h.st.enterErr = true
		h.st.mu.Unlock()
	default:
		die(fmt.Sprintf("unknown event tag %d", tag))
	}
	h.emit()
}

func main() {
	w := newWorld()
	var h *harness
	sc := bufio.NewScanner(os.Stdin)
	sc.Buffer(make([]byte, 1<<20), 1<<24)
	for sc.Scan() {
		f := strings.Fields(sc.Text())
		if len(f) == 0 {
			continue
		}
		xs := make([]uint64, len(f))
		for i, s := range f {
			v, err := strconv.ParseUint(s, 10, 64)
			if err != nil {
				die("bad number " + s)
			}
			xs[i] = v
		}
		if xs[0] == 0 {
			if h != nil && h.running {
				h.stop()
			}
			h = &harness{w: w, rec: &recorder{}, hasSigner: xs[2] == 1,
				aStore: tmmemstore.NewActionStore(), fStore: tmmemstore.NewFinalizationStore(), sStore: tmmemstore.NewStateMachineStore()}
			// the engine stores the genesis finalization at InitialHeight-1 before the state machine starts
			gh, err := h.genesis().Header(w.fx.HashScheme)
			if err != nil {
				panic(err)
			}
			if err := h.fStore.SaveFinalization(context.Background(), 0, 0, string(gh.Hash), w.valset(15), string(hashOf(1))); err != nil {
				panic(err)
			}
			fmt.Fprintf(out, "T %d\n", xs[1])
			out.Flush()
			continue
		}
		h.event(xs)
	}
	if h != nil && h.running {
		h.stop()
	}
}
