// Harness for C17: drives the REAL tmgossip.ChattyStrategy with generated sequences of
// tmelink.NetworkViewUpdate values and records everything it sends on the
// ConsensusBroadcaster.Outgoing* channels, per update.
//
// Views are built from real gcrypto.SimpleCommonMessageSignatureProof values holding real ed25519
// signatures of the real prevote/precommit sign bytes (tmconsensustest fixture keys).
//
// Synchronisation is deterministic (no sleeps): the update channel and the three outgoing
// channels are unbuffered and owned by the harness. While offering update i+1 the harness
// receives on the outgoing channels; the strategy's single goroutine accepts update i+1 only
// when it is back in its select, i.e. after every broadcast of update i has been handed over.
// A final empty update is the barrier for the last step. A 20 s watchdog only turns a hang into
// an observation ("timeout"); it never decides the order of anything.
//
// stdin : {"cases":[{"updates":[{"c":V,"v":V,"n":V,"nil":V}, ...]}, ...]}   (V = null or
//         {"h":..,"r":..,"phs":[id..],"pv":[[target,keyhash,[[signer,token]..]]..],"pc":[..]})
// stdout: {"results":[{"status":"ok|stopped|panic|timeout|bad-input","steps":[[EV..]..]}]}
//         EV = ["PH",id] | ["PV"|"PC",h,r,keyhash,[[target,[[signer,token]..]]..]]
//
// target 0 is the nil block (empty hash). keyhash 0 is the fixture's real public-key hash,
// k>0 a different (fake) hash string. token is the case generator's name for the signature
// value of (kind,h,r,target,signer); the harness maps the real signature bytes back to it.
package main

import (
	"context"
	"encoding/binary"
	"encoding/json"
	"fmt"
	"io"
	"log/slog"
	"os"
	"os/exec"
	"sort"
	"strconv"
	"strings"
	"time"

	"github.com/gordian-engine/gordian/gcrypto"
	"github.com/gordian-engine/gordian/tm/tmconsensus"
	"github.com/gordian-engine/gordian/tm/tmconsensus/tmconsensustest"
	"github.com/gordian-engine/gordian/tm/tmengine/tmelink"
	"github.com/gordian-engine/gordian/tm/tmgossip"
	"github.com/gordian-engine/gordian/tm/tmp2p"
)

const nVals = 8

type jProof struct {
	Target  uint64
	KeyHash uint64
	Sigs    [][2]uint64
}

func (p *jProof) UnmarshalJSON(b []byte) error {
	var raw []json.RawMessage
	if err := json.Unmarshal(b, &raw); err != nil {
		return err
	}
	if len(raw) != 3 {
		return fmt.Errorf("proof needs 3 fields")
	}
	if err := json.Unmarshal(raw[0], &p.Target); err != nil {
		return err
	}
	if err := json.Unmarshal(raw[1], &p.KeyHash); err != nil {
		return err
	}
	return json.Unmarshal(raw[2], &p.Sigs)
}

type jView struct {
	H   uint64   `json:"h"`
	R   uint32   `json:"r"`
	PHs []uint64 `json:"phs"`
	PV  []jProof `json:"pv"`
	PC  []jProof `json:"pc"`
}

type jUpdate struct {
	C   *jView `json:"c"`
	V   *jView `json:"v"`
	N   *jView `json:"n"`
	Nil *jView `json:"nil"`
}

type jCase struct {
	Updates []jUpdate `json:"updates"`
}

type jInput struct {
	Cases []jCase `json:"cases"`
}

type jResult struct {
	Status string            `json:"status"`
	Steps  [][][]interface{} `json:"steps"`
	Note   string            `json:"note,omitempty"`
}

// recorder is the recording tmp2p.ConsensusBroadcaster.
type recorder struct {
	ph chan tmconsensus.ProposedHeader
	pv chan tmconsensus.PrevoteSparseProof
	pc chan tmconsensus.PrecommitSparseProof
}

func (r *recorder) OutgoingProposedHeaders() chan<- tmconsensus.ProposedHeader { return r.ph }
func (r *recorder) OutgoingPrevoteProofs() chan<- tmconsensus.PrevoteSparseProof {
	return r.pv
}
func (r *recorder) OutgoingPrecommitProofs() chan<- tmconsensus.PrecommitSparseProof {
	return r.pc
}

var _ tmp2p.ConsensusBroadcaster = (*recorder)(nil)

type world struct {
	fx       *tmconsensustest.Fixture
	pubKeys  []gcrypto.PubKey
	realHash string
	sigCache map[string][]byte // kind/h/r/target/signer -> signature bytes
	tokens   map[string]uint64 // signature bytes -> token
	bad      string

	nviews       uint32
	blockVer     map[string]uint32
	blockSeen    map[string]string
	blockChanges map[string]uint32
}

func newWorld() *world {
	fx := tmconsensustest.NewEd25519Fixture(nVals)
	pubKeys := tmconsensus.ValidatorsToPubKeys(fx.Vals())
	h, err := fx.HashScheme.PubKeys(pubKeys)
	if err != nil {
		panic(err)
	}
	return &world{fx: fx, pubKeys: pubKeys, realHash: string(h),
		sigCache: map[string][]byte{}, tokens: map[string]uint64{}}
}

func targetHash(t uint64) string {
	if t == 0 {
		return ""
	}
	return "blk-" + strconv.FormatUint(t, 10)
}

func hashTarget(h string) (uint64, bool) {
	if h == "" {
		return 0, true
	}
	if !strings.HasPrefix(h, "blk-") {
		return 0, false
	}
	t, err := strconv.ParseUint(h[4:], 10, 64)
	return t, err == nil
}

func (w *world) keyHash(k uint64) string {
	if k == 0 {
		return w.realHash
	}
	return "fake-key-hash-" + strconv.FormatUint(k, 10)
}

func (w *world) keyHashID(s string) (uint64, bool) {
	if s == w.realHash {
		return 0, true
	}
	if !strings.HasPrefix(s, "fake-key-hash-") {
		return 0, false
	}
	k, err := strconv.ParseUint(s[len("fake-key-hash-"):], 10, 64)
	return k, err == nil
}

func (w *world) proofMap(precommit bool, h uint64, r uint32, ps []jProof) map[string]gcrypto.CommonMessageSignatureProof {
	if len(ps) == 0 {
		return nil
	}
	out := make(map[string]gcrypto.CommonMessageSignatureProof, len(ps))
	for _, p := range ps {
		vt := tmconsensus.VoteTarget{Height: h, Round: r, BlockHash: targetHash(p.Target)}
		var msg []byte
		var err error
		if precommit {
			msg, err = tmconsensus.PrecommitSignBytes(vt, w.fx.SignatureScheme)
		} else {
			msg, err = tmconsensus.PrevoteSignBytes(vt, w.fx.SignatureScheme)
		}
		if err != nil {
			panic(err)
		}
		proof, err := gcrypto.NewSimpleCommonMessageSignatureProof(msg, w.pubKeys, w.keyHash(p.KeyHash))
		if err != nil {
			panic(err)
		}
		for _, st := range p.Sigs {
			signer, token := st[0], st[1]
			if signer >= nVals {
				w.bad = "signer out of range"
				continue
			}
			ck := fmt.Sprintf("%v/%d/%d/%d/%d", precommit, h, r, p.Target, signer)
			sig, ok := w.sigCache[ck]
			if !ok {
				sig, err = w.fx.PrivVals[signer].Signer.Sign(context.Background(), msg)
				if err != nil {
					panic(err)
				}
				w.sigCache[ck] = sig
			}
			if old, ok := w.tokens[string(sig)]; ok && old != token {
				w.bad = "two tokens for one signature value"
			}
			w.tokens[string(sig)] = token
			if err := proof.AddSignature(sig, w.fx.PrivVals[signer].Signer.PubKey()); err != nil {
				panic(err)
			}
		}
		if _, dup := out[vt.BlockHash]; dup {
			w.bad = "duplicate target in a proof map"
		}
		out[vt.BlockHash] = proof
	}
	return out
}

// ids >= 1000000 are TWINS: the same header (block hash, data id) as id % 1000000 proposed again with another signature -
// another ProposedHeader for the same block (the block hash does not cover proposer, signature or annotations).
func phFor(id, h uint64, r uint32) tmconsensus.ProposedHeader {
	base := id % 1000000
	return tmconsensus.ProposedHeader{
		Header: tmconsensus.Header{
			Height: h,
			Hash:   []byte("hdr-" + strconv.FormatUint(base, 10)),
			DataID: []byte("data-" + strconv.FormatUint(base, 10)),
		},
		Round:     r,
		Signature: []byte("phsig-" + strconv.FormatUint(id, 10)),
	}
}

func phID(ph tmconsensus.ProposedHeader) interface{} {
	hs, ss := string(ph.Header.Hash), string(ph.Signature)
	if strings.HasPrefix(hs, "hdr-") && strings.HasPrefix(ss, "phsig-") && string(ph.Header.DataID) == "data-"+hs[4:] {
		if id, err := strconv.ParseUint(ss[6:], 10, 64); err == nil && strconv.FormatUint(id%1000000, 10) == hs[4:] {
			return id
		}
	}
	return "corrupt:" + hs + "/" + ss
}

func (w *world) view(v *jView) *tmconsensus.VersionedRoundView {
	if v == nil {
		return nil
	}
	out := &tmconsensus.VersionedRoundView{}
	out.Height = v.H
	out.Round = v.R
	for _, id := range v.PHs {
		out.ProposedHeaders = append(out.ProposedHeaders, phFor(id, v.H, v.R))
	}
	out.PrevoteProofs = w.proofMap(false, v.H, v.R, v.PV)
	out.PrecommitProofs = w.proofMap(true, v.H, v.R, v.PC)
	// Version metadata as the mirror fills it in. The strategy must not rely on it: the mirror bumps the overall
	// version on every change, but a per-block version can stay the same while the block's proof changes (commit-proof
	// backfill, replayed headers), so every fourth change of a block's proof keeps its block version here.
	w.nviews++
	out.Version = w.nviews
	out.PrevoteVersion, out.PrecommitVersion = w.nviews, w.nviews
	out.PrevoteBlockVersions = w.blockVersions("pv", v.H, v.R, v.PV)
	out.PrecommitBlockVersions = w.blockVersions("pc", v.H, v.R, v.PC)
	return out
}

func (w *world) blockVersions(kind string, h uint64, r uint32, ps []jProof) map[string]uint32 {
	if len(ps) == 0 {
		return nil
	}
	if w.blockVer == nil {
		w.blockVer = map[string]uint32{}
		w.blockSeen = map[string]string{}
		w.blockChanges = map[string]uint32{}
	}
	out := make(map[string]uint32, len(ps))
	for _, p := range ps {
		k := fmt.Sprintf("%s/%d/%d/%d", kind, h, r, p.Target)
		content := fmt.Sprint(p.KeyHash, p.Sigs)
		if w.blockSeen[k] != content {
			w.blockSeen[k] = content
			w.blockChanges[k]++
			if w.blockVer[k] == 0 || w.blockChanges[k]%4 != 0 {
				w.blockVer[k]++
			}
		}
		out[targetHash(p.Target)] = w.blockVer[k]
	}
	return out
}

func (w *world) sparseEvent(kind string, h uint64, r uint32, pkh string, proofs map[string][]gcrypto.SparseSignature) []interface{} {
	var kh interface{}
	if id, ok := w.keyHashID(pkh); ok {
		kh = id
	} else {
		kh = "corrupt:" + pkh
	}
	type ent struct {
		t    uint64
		sigs [][]interface{}
	}
	var ents []ent
	for hash, sigs := range proofs {
		t, ok := hashTarget(hash)
		if !ok {
			t = 1 << 62
		}
		e := ent{t: t, sigs: [][]interface{}{}}
		for _, s := range sigs {
			var signer interface{} = "corrupt-keyid"
			if len(s.KeyID) == 2 {
				signer = uint64(binary.BigEndian.Uint16(s.KeyID))
			}
			var token interface{}
			if tk, ok := w.tokens[string(s.Sig)]; ok {
				token = tk
			} else {
				token = "unknown-signature"
			}
			e.sigs = append(e.sigs, []interface{}{signer, token})
		}
		ents = append(ents, e)
	}
	sort.Slice(ents, func(i, j int) bool { return ents[i].t < ents[j].t })
	body := [][]interface{}{}
	for _, e := range ents {
		body = append(body, []interface{}{e.t, e.sigs})
	}
	return []interface{}{kind, h, r, kh, body}
}

func runCase(cs jCase) jResult {
	res := jResult{Status: "ok", Steps: [][][]interface{}{}}
	if len(cs.Updates) == 0 {
		return res
	}
	w := newWorldCached()
	w.tokens = map[string]uint64{}
	w.bad = ""
	ups := make([]tmelink.NetworkViewUpdate, 0, len(cs.Updates)+1)
	for _, u := range cs.Updates {
		ups = append(ups, tmelink.NetworkViewUpdate{
			Committing: w.view(u.C), Voting: w.view(u.V), NextRound: w.view(u.N), NilVotedRound: w.view(u.Nil),
		})
	}
	if w.bad != "" {
		return jResult{Status: "bad-input", Steps: [][][]interface{}{}, Note: w.bad}
	}
	ups = append(ups, tmelink.NetworkViewUpdate{}) // barrier

	ctx, cancel := context.WithCancel(context.Background())
	defer cancel()
	rec := &recorder{
		ph: make(chan tmconsensus.ProposedHeader),
		pv: make(chan tmconsensus.PrevoteSparseProof),
		pc: make(chan tmconsensus.PrecommitSparseProof),
	}
	log := slog.New(slog.NewTextHandler(io.Discard, nil))
	s := tmgossip.NewChattyStrategy(ctx, log, rec)
	updates := make(chan tmelink.NetworkViewUpdate)
	s.Start(updates)
	done := make(chan struct{})
	go func() { s.Wait(); close(done) }()

	watchdog := time.NewTimer(20 * time.Second)
	defer watchdog.Stop()
	cur := [][]interface{}{}
loop:
	for i := range ups {
		for {
			select {
			case updates <- ups[i]:
				if i > 0 {
					res.Steps = append(res.Steps, cur)
					cur = [][]interface{}{}
				}
				continue loop
			case ph := <-rec.ph:
				cur = append(cur, []interface{}{"PH", phID(ph)})
			case p := <-rec.pv:
				cur = append(cur, w.sparseEvent("PV", p.Height, p.Round, p.PubKeyHash, p.Proofs))
			case p := <-rec.pc:
				cur = append(cur, w.sparseEvent("PC", p.Height, p.Round, p.PubKeyHash, p.Proofs))
			case <-done:
				res.Status = "stopped"
				res.Steps = append(res.Steps, cur)
				break loop
			case <-watchdog.C:
				res.Status = "timeout"
				res.Steps = append(res.Steps, cur)
				break loop
			}
		}
	}
	cancel()
	select {
	case <-done:
	case <-time.After(20 * time.Second):
		res.Status = "timeout"
	}
	return res
}

var cachedWorld *world

func newWorldCached() *world {
	if cachedWorld == nil {
		cachedWorld = newWorld()
	}
	return cachedWorld
}

// runIsolated runs one case in a child process, so that a panic of the strategy goroutine
// (which cannot be recovered from outside) becomes an observation.
func runIsolated(cs jCase) jResult {
	in, _ := json.Marshal(jInput{Cases: []jCase{cs}})
	cmd := exec.Command(os.Args[0], "-inproc")
	cmd.Stdin = strings.NewReader(string(in))
	var stderr strings.Builder
	cmd.Stderr = &stderr
	out, err := cmd.Output()
	if err != nil {
		note := "crash"
		if strings.Contains(stderr.String(), "panic:") {
			idx := strings.Index(stderr.String(), "panic:")
			note = strings.SplitN(stderr.String()[idx:], "\n", 2)[0]
		}
		return jResult{Status: "panic", Steps: [][][]interface{}{}, Note: note}
	}
	var r struct {
		Results []jResult `json:"results"`
	}
	if json.Unmarshal(out, &r) != nil || len(r.Results) != 1 {
		return jResult{Status: "panic", Steps: [][][]interface{}{}, Note: "unreadable child output"}
	}
	return r.Results[0]
}

func main() {
	inproc, isolateAll := false, false
	for _, a := range os.Args[1:] {
		if a == "-inproc" {
			inproc = true
		}
		if a == "-isolate" {
			isolateAll = true
		}
	}
	data, err := io.ReadAll(os.Stdin)
	if err != nil {
		panic(err)
	}
	var in jInput
	if err := json.Unmarshal(data, &in); err != nil {
		fmt.Fprintln(os.Stderr, "bad input:", err)
		os.Exit(2)
	}
	results := make([]jResult, 0, len(in.Cases))
	for _, cs := range in.Cases {
		// The first update without a voting view reaches an explicit panic in the kernel goroutine.
		risky := len(cs.Updates) > 0 && cs.Updates[0].V == nil
		if !inproc && (risky || isolateAll) {
			results = append(results, runIsolated(cs))
		} else {
			results = append(results, runCase(cs))
		}
	}
	out, _ := json.Marshal(map[string]interface{}{"results": results})
	os.Stdout.Write(out)
	os.Stdout.Write([]byte("\n"))
}
