#!/usr/bin/env python3
"""Generates the record declarations + setters of coq/Model/StateMachine.v (boilerplate only).
Usage: python3 tools/gen_sm_records.py > /tmp/records.v ; the output is pasted into the model file."""
RLC = [("rH","N"),("rR","N"),("rS","N"),("rTimer","option (N * N * N)"),("rHC","bool"),
       ("rCurVS","N"),("rPrevVS","N"),("rVRV","option view"),("rPBH","hash"),("rPFNVS","N"),("rPFASH","hash"),
       ("rConsidered","list hash"),("rOut","option (N * N)"),("rPropCh","bool"),("rPvCh","bool"),("rPcCh","bool"),
       ("rFinCh","bool"),("rFinVS","N"),("rFinASH","hash"),("rFinBH","hash")]
SM = [("run","run_state"),("rl","rlc"),("gen","N"),("cm","option (N * N * bool)"),("propOut","N"),("enterErr","bool"),
      ("finReq","option (N * N * N * hash)"),("hcOpen","bool"),("hTimer","option (N * N * N)"),("liveSeen","bool"),("signer","bool"),
      ("pendAct","option (N * N)"),("aStore","list (N * N * ra)"),("fStore","list (N * fin)"),("sStore","N * N"),("pend","N")]
def rec(name, mk, fields):
    print("Record %s := %s { %s }." % (name, mk, "; ".join("%s : %s" % f for f in fields)))
    for i,(f,t) in enumerate(fields):
        args = " ".join("v" if j==i else "(%s x)" % g for j,(g,_) in enumerate(fields))
        print("Definition set_%s (v : %s) (x : %s) : %s := %s %s." % (f, t, name, name, mk, args))
    print()
rec("rlc","mkRlc",RLC)
rec("sm","mkSm",SM)
