#!/usr/bin/env python3
"""Replays the witnesses of Proofs/SMOnceFin.v / SMOnceHist.v (C08Once) on the REAL state machine through
harness/sm, with the machinery of checks/sm_common.py: the model's outputs are computed inside coqc, the same
events are run on the code, outputs are compared event by event. Prints one line per witness.
Usage: VERIF_REPO=/repo python3 tools/replay_c08once.py"""
import os, sys
HERE = os.path.dirname(os.path.abspath(__file__))
sys.path.insert(0, os.path.join(HERE, "..", "lib"))
sys.path.insert(0, os.path.join(HERE, "..", "checks"))
import vcheck
import sm_common as S

NAMES = {101: "w_fin_round (C08_finalize_once_per_round_refuted)",
         102: "w_fin_height (C08_finalize_once_per_height_refuted)",
         103: "ex_stale + response (C08_step_is_stale_while_awaiting)",
         104: "w_dec (two decisions, an entrance in between)",
         105: "ex_cons_hist (four consider requests in one round)"}


def main():
    c = vcheck.Check("C08", ["--tier", "quick"])
    tok, binary = S.prepare(c)
    if binary is None:
        print("harness not built")
        return 2
    body = S.HEADER.replace("Model.SMWalk.", "Model.SMWalk Proofs.SMWitness Proofs.SMOnceHist Proofs.SMOnceCons Proofs.SMOnceFin.") + """
Definition ws : list (N * list event) :=
  [(101, w_fin_round); (102, w_fin_height);
   (103, ex_stale ++ [EvRERespVRV (mkv 1 1 1 (vs_of 0 0 [] []) [])]); (104, w_dec); (105, ex_cons_hist)].
Definition rep := Eval vm_compute in
  map (fun w => (fst w, combine (map enc_event (snd w)) (map project (run_events (sm0 true) (snd w))))) ws.
Print rep.
"""
    ok, txt = c.coq_eval("sm_replay_c08once", body)
    val = S.parse_coq_value(txt, "rep") if ok else None
    if val is None:
        print("evaluation failed:\n" + txt[-2000:])
        return 2
    ids = [w[0] for w in val]
    traces = [w[1] for w in val]
    cases = [(1, [])] * len(traces)
    impl, _ = S.run_harness(c, binary, cases, traces)
    rc = 0
    for wid, tr, im in zip(ids, traces, impl):
        d = S.first_diff(tr, im)
        if d is None:
            print("REPRODUCED %d %s: the code's outputs equal the model's on all %d events" % (wid, NAMES[wid], len(tr)))
        else:
            rc = 1
            print("DIFFERS %d %s at event %d" % (wid, NAMES[wid], d))
        print(S.render(tr, im))
    return rc


if __name__ == "__main__":
    sys.exit(main())
